//! Naive model of the part of the memchr 2.7 API that pasfmt-core uses.
//! Used ONLY inside the Kani work copy (through [patch.crates-io]): the real
//! crate dispatches on CPUID / SIMD intrinsics, which CBMC cannot execute.
//! Listed as an assumption in every evidence file that depends on it.
pub fn memchr(n: u8, h: &[u8]) -> Option<usize> {
    let mut i = 0;
    while i < h.len() {
        if h[i] == n {
            return Some(i);
        }
        i += 1;
    }
    None
}
pub fn memchr2(a: u8, b: u8, h: &[u8]) -> Option<usize> {
    let mut i = 0;
    while i < h.len() {
        if h[i] == a || h[i] == b {
            return Some(i);
        }
        i += 1;
    }
    None
}
pub fn memchr3(a: u8, b: u8, c: u8, h: &[u8]) -> Option<usize> {
    let mut i = 0;
    while i < h.len() {
        if h[i] == a || h[i] == b || h[i] == c {
            return Some(i);
        }
        i += 1;
    }
    None
}
pub mod memmem {
    pub fn find(h: &[u8], n: &[u8]) -> Option<usize> {
        if n.len() > h.len() {
            return None;
        }
        let mut i = 0;
        while i + n.len() <= h.len() {
            let mut j = 0;
            let mut ok = true;
            while j < n.len() {
                if h[i + j] != n[j] {
                    ok = false;
                }
                j += 1;
            }
            if ok {
                return Some(i);
            }
            i += 1;
        }
        None
    }
}
