//! Naive model of the part of the memchr 2.7 API that pasfmt-core uses.
//! Used ONLY inside the Kani work copy (through [patch.crates-io]): the real
//! crate dispatches on CPUID / SIMD intrinsics, which CBMC cannot execute.
//! Listed as an assumption in every evidence file that depends on it.
pub fn memchr(n: u8, h: &[u8]) -> Option<usize> {
    let mut i = 0;
    while i < h.len() {
        if h[i] == n {
            return Some(i);
        }
        i += 1;
    }
    None
}
pub fn memchr2(a: u8, b: u8, h: &[u8]) -> Option<usize> {
    let mut i = 0;
    while i < h.len() {
        if h[i] == a || h[i] == b {
            return Some(i);
        }
        i += 1;
    }
    None
}
pub fn memchr3(a: u8, b: u8, c: u8, h: &[u8]) -> Option<usize> {
    let mut i = 0;
    while i < h.len() {
        if h[i] == a || h[i] == b || h[i] == c {
            return Some(i);
        }
        i += 1;
    }
    None
}
pub mod memmem {
    pub fn find(h: &[u8], n: &[u8]) -> Option<usize> {
        if n.len() > h.len() {
            return None;
        }
        let mut i = 0;
        while i + n.len() <= h.len() {
            let mut j = 0;
            let mut ok = true;
            while j < n.len() {
                if h[i + j] != n[j] {
                    ok = false;
                }
                j += 1;
            }
            if ok {
                return Some(i);
            }
            i += 1;
        }
        None
    }
    pub fn rfind(h: &[u8], n: &[u8]) -> Option<usize> {
        if n.len() > h.len() {
            return None;
        }
        let mut i = h.len() - n.len() + 1;
        while i > 0 {
            i -= 1;
            if &h[i..i + n.len()] == n {
                return Some(i);
            }
        }
        None
    }
}

// ---- the rest of the commonly used memchr 2.7 surface, so that a change to pasfmt-core that switches to another
// ---- search routine still compiles in the Kani work copy (same naive semantics: positions in increasing order)
pub fn memrchr(n: u8, h: &[u8]) -> Option<usize> {
    let mut i = h.len();
    while i > 0 {
        i -= 1;
        if h[i] == n {
            return Some(i);
        }
    }
    None
}
pub fn memrchr2(a: u8, b: u8, h: &[u8]) -> Option<usize> {
    let mut i = h.len();
    while i > 0 {
        i -= 1;
        if h[i] == a || h[i] == b {
            return Some(i);
        }
    }
    None
}
pub fn memrchr3(a: u8, b: u8, c: u8, h: &[u8]) -> Option<usize> {
    let mut i = h.len();
    while i > 0 {
        i -= 1;
        if h[i] == a || h[i] == b || h[i] == c {
            return Some(i);
        }
    }
    None
}
/// Iterator over the positions of bytes in a needle set (at most three needles), front to back or back to front.
pub struct Memchr<'h> {
    h: &'h [u8],
    needles: [u8; 3],
    lo: usize,
    hi: usize,
}
impl<'h> Memchr<'h> {
    fn is_needle(&self, b: u8) -> bool {
        b == self.needles[0] || b == self.needles[1] || b == self.needles[2]
    }
}
impl<'h> Iterator for Memchr<'h> {
    type Item = usize;
    fn next(&mut self) -> Option<usize> {
        while self.lo < self.hi {
            let i = self.lo;
            self.lo += 1;
            if self.is_needle(self.h[i]) {
                return Some(i);
            }
        }
        None
    }
}
impl<'h> DoubleEndedIterator for Memchr<'h> {
    fn next_back(&mut self) -> Option<usize> {
        while self.lo < self.hi {
            self.hi -= 1;
            if self.is_needle(self.h[self.hi]) {
                return Some(self.hi);
            }
        }
        None
    }
}
pub fn memchr_iter(n: u8, h: &[u8]) -> Memchr<'_> {
    Memchr { h, needles: [n, n, n], lo: 0, hi: h.len() }
}
pub fn memchr2_iter(a: u8, b: u8, h: &[u8]) -> Memchr<'_> {
    Memchr { h, needles: [a, b, b], lo: 0, hi: h.len() }
}
pub fn memchr3_iter(a: u8, b: u8, c: u8, h: &[u8]) -> Memchr<'_> {
    Memchr { h, needles: [a, b, c], lo: 0, hi: h.len() }
}
pub fn memrchr_iter(n: u8, h: &[u8]) -> core::iter::Rev<Memchr<'_>> {
    memchr_iter(n, h).rev()
}
