// U3/U4/U5 — scanner helpers, tables and looping sub-scanners (lexer.rs), on bounded windows.
// The contracts are the ones the Verus units lexloop / lexops ASSUME (assume-guarantee):
//   count_leading_whitespace(s) = length of the maximal blank prefix (bytes <= 0x20, U+3000), a char boundary
//   count_decimal / count_hex / count_binary(s, o) = maximal run of the byte class starting at o
//   every sub-scanner f(args): args.offset <= end <= len, end on a char boundary, kind != Eof   (sub_ok)
// plus, per scanner, extent and kind according to the Delphi lexical rules.
#[cfg(kani)]
mod verif_lex {
    use super::*;

    fn st(first: bool, asm: bool) -> LexState {
        LexState { is_first: first, in_asm: asm, prev_real_token: None }
    }

    // a window: K symbolic ASCII bytes, optionally with a fixed multi-byte scalar spliced in at index P
    fn window<const N: usize>(buf: &mut [u8; N], multi: &[u8], p: usize) -> usize {
        let mut i = 0;
        while i < N {
            if i >= p && i < p + multi.len() {
                buf[i] = multi[i - p];
            } else {
                let b: u8 = kani::any();
                kani::assume(b < 0x80);
                buf[i] = b;
            }
            i += 1;
        }
        N
    }
    fn as_str(b: &[u8]) -> &str {
        // SAFETY: ASCII bytes plus whole well-formed scalars only
        unsafe { core::str::from_utf8_unchecked(b) }
    }

    fn blank_run(b: &[u8], from: usize) -> usize {
        let mut i = from;
        loop {
            if i < b.len() && b[i] <= 0x20 {
                i += 1;
            } else if i + 2 < b.len() && b[i] == 0xE3 && b[i + 1] == 0x80 && b[i + 2] == 0x80 {
                i += 3;
            } else {
                return i - from;
            }
        }
    }
    fn run(b: &[u8], from: usize, cls: fn(u8) -> bool) -> usize {
        let mut i = from;
        while i < b.len() && cls(b[i]) {
            i += 1;
        }
        i - from
    }
    fn is_dec(b: u8) -> bool { b == b'_' || (b >= b'0' && b <= b'9') }
    fn is_hex(b: u8) -> bool { is_dec(b) || (b >= b'a' && b <= b'f') || (b >= b'A' && b <= b'F') }
    fn is_bin(b: u8) -> bool { b == b'_' || b == b'0' || b == b'1' }
    fn is_ident_ascii(b: u8) -> bool { b == b'_' || (b >= b'0' && b <= b'9') || (b >= b'a' && b <= b'z') || (b >= b'A' && b <= b'Z') }

    // ---------------------------------------------------------------- U3 lexscan
    fn run_clw<const N: usize>(multi: &[u8], p: usize) {
        let mut buf = [0u8; N];
        window(&mut buf, multi, p);
        let s = as_str(&buf);
        let r = count_leading_whitespace(s);
        kani::cover!(r > 0, "a blank prefix");
        kani::cover!(r < N, "content after the blanks");
        assert!(r == blank_run(&buf, 0), "OB lexscan/blank_prefix: count_leading_whitespace = maximal prefix of bytes <= 0x20 and U+3000");
        assert!(s.is_char_boundary(r), "OB lexscan/blank_prefix_boundary: the blank prefix ends on a character boundary");
    }
    #[kani::proof]
    #[kani::unwind(7)]
    fn lexscan_ws_ascii4() { run_clw::<4>(&[], 0); }
    #[kani::proof]
    #[kani::unwind(8)]
    fn lexscan_ws_ideographic() { run_clw::<5>(&[0xE3, 0x80, 0x80], 1); }
    #[kani::proof]
    #[kani::unwind(8)]
    fn lexscan_ws_other_multibyte() { run_clw::<4>(&[0xE3, 0x80, 0x81], 1); }
    #[kani::proof]
    #[kani::unwind(8)]
    fn lexscan_ws_two_byte() { run_clw::<4>(&[0xC3, 0xA9], 1); }

    fn run_counts<const N: usize>() {
        let mut buf = [0u8; N];
        window(&mut buf, &[], 0);
        let s = as_str(&buf);
        let o: usize = kani::any();
        kani::assume(o <= N);
        kani::cover!(o < N && is_hex(buf[o]) && !is_dec(buf[o]), "hex letter");
        assert!(count_decimal(s, o) == run(&buf, o, is_dec), "OB lexscan/count_decimal: maximal run of [0-9_]");
        assert!(count_hex(s, o) == run(&buf, o, is_hex), "OB lexscan/count_hex: maximal run of [0-9a-fA-F_]");
        assert!(count_binary(s, o) == run(&buf, o, is_bin), "OB lexscan/count_binary: maximal run of [01_]");
    }
    #[kani::proof]
    #[kani::unwind(7)]
    fn lexscan_counts4() { run_counts::<4>(); }

    fn run_ident_end<const N: usize>(multi: &[u8], p: usize, multi_is_ident: bool) {
        let mut buf = [0u8; N];
        window(&mut buf, multi, p);
        let s = as_str(&buf);
        let o: usize = kani::any();
        kani::assume(o <= N && s.is_char_boundary(o));
        let r = find_identifier_end_generic(s, o);
        // oracle: ASCII identifier bytes, or a whole non-ASCII scalar other than U+3000
        let mut e = o;
        loop {
            if e < N && is_ident_ascii(buf[e]) {
                e += 1;
            } else if e == p && multi.len() > 0 && multi_is_ident && e < N {
                e += multi.len();
            } else {
                break;
            }
        }
        kani::cover!(r > o, "identifier characters consumed");
        assert!(r == e, "OB lexscan/identifier_end: identifier = maximal run of [A-Za-z0-9_] and non-ASCII characters other than U+3000");
        assert!(s.is_char_boundary(r), "OB lexscan/identifier_end_boundary: an identifier ends on a character boundary");
    }
    #[kani::proof]
    #[kani::unwind(8)]
    fn lexscan_ident_ascii4() { run_ident_end::<4>(&[], 0, false); }
    #[kani::proof]
    #[kani::unwind(8)]
    fn lexscan_ident_two_byte() { run_ident_end::<4>(&[0xC3, 0xA9], 1, true); }
    #[kani::proof]
    #[kani::unwind(8)]
    fn lexscan_ident_ideographic_space() { run_ident_end::<5>(&[0xE3, 0x80, 0x80], 1, false); }

    // ---------------------------------------------------------------- U4 lextable
    // Kani function contract on get_word_token_type (injected as `#[kani::ensures(..)]` above the function):
    // the result is the kind of the listed keyword that equals the word ignoring ASCII case, else Identifier.
    pub(crate) fn keyword_oracle(w: &str) -> RawTokenType {
        let wb = w.as_bytes();
        let mut exp = TT::Identifier;
        let mut k = 0;
        while k < KEYWORDS.len() {
            let kw = KEYWORDS[k].0.as_bytes();
            if kw.len() == wb.len() {
                let mut eq = true;
                let mut j = 0;
                while j < wb.len() {
                    let c = if wb[j] >= b'A' && wb[j] <= b'Z' { wb[j] + 32 } else { wb[j] };
                    if c != kw[j] {
                        eq = false;
                    }
                    j += 1;
                }
                if eq {
                    exp = KEYWORDS[k].1;
                }
            }
            k += 1;
        }
        exp
    }

    // the contract is discharged per word length (every ASCII word of that length)
    fn contract_keyword<const L: usize>() {
        let mut w = [0u8; L];
        let mut i = 0;
        while i < L {
            let b: u8 = kani::any();
            kani::assume(b < 0x80);
            w[i] = b;
            i += 1;
        }
        let _ = get_word_token_type(as_str(&w));
    }
    #[kani::proof_for_contract(get_word_token_type)]
    #[kani::unwind(124)]
    fn lextable_contract_keywords_len2() { contract_keyword::<2>(); }
    #[kani::proof_for_contract(get_word_token_type)]
    #[kani::unwind(124)]
    fn lextable_contract_keywords_len3() { contract_keyword::<3>(); }
    #[kani::proof_for_contract(get_word_token_type)]
    #[kani::unwind(124)]
    fn lextable_contract_keywords_len4() { contract_keyword::<4>(); }

    // modular: identifier_or_keyword is checked against the CONTRACT of get_word_token_type, not its body
    fn word_kind_modular<const WLEN: usize>() {
        // a word of exactly WLEN identifier characters followed by `;`
        let mut buf = [b';'; 5];
        let mut i = 0;
        while i < WLEN {
            let b: u8 = kani::any();
            kani::assume(is_ident_ascii(b));
            buf[i] = b;
            i += 1;
        }
        kani::assume((buf[0] >= b'a' && buf[0] <= b'z') || (buf[0] >= b'A' && buf[0] <= b'Z'));
        let s = as_str(&buf);
        let after_dot: bool = kani::any();
        let mut state = st(false, false);
        if after_dot {
            state.prev_real_token = Some(TT::Op(OK::Dot));
        }
        let r = identifier_or_keyword(LexArgs { input: s, offset: 1, lex_state: &mut state });
        let exp = if after_dot { TT::Identifier } else { keyword_oracle(as_str(&buf[..WLEN])) };
        kani::cover!(exp != TT::Identifier, "a keyword");
        assert!(r.0 == WLEN, "OB lexcomplex/word_extent: a word is the maximal run of identifier characters");
        assert!(r.1 == exp, "OB lexcomplex/word_kind: the kind of a word is that of the keyword table, applied to exactly the word; after a dot always Identifier");
        assert!(state.in_asm == (exp == TT::Keyword(KK::Asm)), "OB lexcomplex/asm_mode_entered: the keyword asm (and only it) switches to the asm scanner");
    }
    #[kani::proof]
    #[kani::unwind(124)]
    #[kani::stub(find_identifier_end_x86_64, find_identifier_end_generic)]
    #[kani::stub_verified(get_word_token_type)]
    fn lexcomplex_word_kind_modular3() { word_kind_modular::<3>(); }
    #[kani::proof]
    #[kani::unwind(124)]
    #[kani::stub(find_identifier_end_x86_64, find_identifier_end_generic)]
    #[kani::stub_verified(get_word_token_type)]
    fn lexcomplex_word_kind_modular2() { word_kind_modular::<2>(); }

    fn run_keyword<const L: usize>() {
        let mut w = [0u8; L];
        let mut i = 0;
        while i < L {
            let b: u8 = kani::any();
            kani::assume(b < 0x80);
            w[i] = b;
            i += 1;
        }
        let s = as_str(&w);
        let got = get_word_token_type(s);
        // linear scan of the keyword list under ASCII case folding
        let mut exp = TT::Identifier;
        let mut k = 0;
        while k < KEYWORDS.len() {
            let kw = KEYWORDS[k].0.as_bytes();
            if kw.len() == L {
                let mut eq = true;
                let mut j = 0;
                while j < L {
                    let c = if w[j] >= b'A' && w[j] <= b'Z' { w[j] + 32 } else { w[j] };
                    if c != kw[j] {
                        eq = false;
                    }
                    j += 1;
                }
                if eq {
                    exp = KEYWORDS[k].1;
                }
            }
            k += 1;
        }
        kani::cover!(exp != TT::Identifier, "a keyword of this length exists");
        assert!(got == exp, "OB lextable/keyword_lookup: a word is a keyword exactly when it equals a listed keyword ignoring ASCII case, with that keyword's kind");
    }
    #[kani::proof]
    #[kani::unwind(124)]
    fn lextable_keywords_len2() { run_keyword::<2>(); }
    #[kani::proof]
    #[kani::unwind(124)]
    fn lextable_keywords_len3() { run_keyword::<3>(); }
    #[kani::proof]
    #[kani::unwind(124)]
    fn lextable_keywords_len5() { run_keyword::<5>(); }

    #[kani::proof]
    #[kani::unwind(124)]
    fn lextable_keywords_len1() { run_keyword::<1>(); }
    #[kani::proof]
    #[kani::unwind(124)]
    fn lextable_keywords_len4() { run_keyword::<4>(); }
    #[kani::proof]
    #[kani::unwind(124)]
    fn lextable_keywords_len6() { run_keyword::<6>(); }
    #[kani::proof]
    #[kani::unwind(124)]
    fn lextable_keywords_len8() { run_keyword::<8>(); }
    #[kani::proof]
    #[kani::unwind(124)]
    fn lextable_keywords_len10() { run_keyword::<10>(); }
    #[kani::proof]
    #[kani::unwind(124)]
    fn lextable_keywords_len14() { run_keyword::<14>(); }
    #[kani::proof]
    #[kani::unwind(124)]
    fn lextable_keywords_len15() { run_keyword::<15>(); }

    #[kani::proof]
    #[kani::unwind(4)]
    fn lextable_dispatch() {
        let b: u8 = kani::any();
        let f = LEXER_MAP[b as usize] as usize;
        let a = ASM_LEXER_MAP[b as usize] as usize;
        let common: Option<usize> = match b {
            b'(' => Some(l_paren as usize),
            b'{' => Some(l_brace as usize),
            b'/' => Some(slash as usize),
            b':' => Some(colon as usize),
            b'<' => Some(l_angle as usize),
            b'>' => Some(r_angle as usize),
            b'.' => Some(dot as usize),
            b'+' => Some(plus as usize),
            b'-' => Some(minus as usize),
            b'*' => Some(star as usize),
            b',' => Some(comma as usize),
            b';' => Some(semicolon as usize),
            b'=' => Some(equal as usize),
            b'^' => Some(caret as usize),
            b'[' => Some(l_brack as usize),
            b']' => Some(r_brack as usize),
            b')' => Some(r_paren as usize),
            b'\'' | b'#' => Some(text_literal as usize),
            b'&' => Some(ampersand as usize),
            b'%' => Some(binary_number_literal as usize),
            b'$' => Some(hex_number_literal as usize),
            b'_' => Some(identifier as usize),
            0x80..=0xFF => Some(unicode_identifier as usize),
            _ => None,
        };
        let pascal = match b {
            b'@' => address_of as usize,
            b'0'..=b'9' => dec_number_literal as usize,
            b'a'..=b'z' | b'A'..=b'Z' => identifier_or_keyword as usize,
            _ => common.unwrap_or(unknown as usize),
        };
        let asm = match b {
            b'@' => asm_label as usize,
            b'"' => asm_text_literal as usize,
            b'0'..=b'9' => asm_number_literal as usize,
            b'a' | b'A' | b'e' | b'E' => asm_identifier as usize,
            b'a'..=b'z' | b'A'..=b'Z' => identifier as usize,
            _ => common.unwrap_or(unknown as usize),
        };
        kani::cover!(b == b'"', "double quote");
        assert!(f == pascal, "OB lextable/dispatch_pascal: every first byte is dispatched to the scanner of its token class");
        assert!(a == asm, "OB lextable/dispatch_asm: inside asm blocks labels, double-quoted strings, numbers and asm/end have their own scanners");
    }

    #[kani::proof]
    #[kani::unwind(7)]
    fn lextable_to_final_token() {
        let ws: usize = kani::any();
        kani::assume(ws <= u32::MAX as usize);
        let tt: RawTokenType = kani::any();
        let t = to_final_token(LexedToken { whitespace_count: ws, token_content: "  ab", token_type: tt });
        kani::cover!(ws == u32::MAX as usize, "largest whitespace count");
        assert!(t.get_str() == "  ab" && t.get_token_type() == tt, "OB lextable/final_token_fields: content and kind are copied");
        // get_leading_whitespace would slice; compare the stored length through the public accessor on a fitting value only
        if ws <= 4 {
            assert!(t.get_leading_whitespace().len() == ws, "OB lextable/final_token_fields: whitespace length is copied");
        }
    }

    #[kani::proof]
    #[kani::unwind(6)]
    fn lextable_prev_next_byte() {
        let mut buf = [0u8; 3];
        window(&mut buf, &[], 0);
        let s = as_str(&buf);
        let o: usize = kani::any();
        kani::assume(o <= 4);
        let mut state = st(false, false);
        let a = LexArgs { input: s, offset: o, lex_state: &mut state };
        kani::cover!(o == 0, "offset 0");
        assert!(a.prev_byte().copied() == if o >= 1 && o <= 3 { Some(buf[o - 1]) } else { None }, "OB lextable/prev_byte: the byte before the offset, if any");
        assert!(a.next_byte().copied() == if o < 3 { Some(buf[o]) } else { None }, "OB lextable/next_byte: the byte at the offset, if any");
    }

    // ---------------------------------------------------------------- U5 lexcomplex
    // shared postcondition every scanner owes to the loop proof
    fn sub_ok(s: &str, offset: usize, r: OffsetAndTokenType) -> bool {
        offset <= r.0 && r.0 <= s.len() && s.is_char_boundary(r.0) && r.1 != TT::Eof
    }

    // line comment: `//` + K bytes
    fn run_line_comment<const N: usize>(multi: &[u8], p: usize) {
        let mut buf = [0u8; N];
        window(&mut buf, multi, p);
        buf[0] = b'/';
        buf[1] = b'/';
        let s = as_str(&buf);
        let first: bool = kani::any();
        let mut state = st(first, false);
        let r = line_comment(LexArgs { input: s, offset: 2, lex_state: &mut state });
        let mut e = 2;
        while e < N && buf[e] != b'\n' && buf[e] != b'\r' {
            e += 1;
        }
        kani::cover!(e < N, "terminated by a line break");
        kani::cover!(e == N, "runs to the end of input");
        assert!(sub_ok(s, 2, r), "OB lexcomplex/line_comment_ok: end within the input, on a character boundary");
        assert!(r.0 == e, "OB lexcomplex/line_comment_extent: a single-line comment ends before the first LF or CR, or at the end of input");
        assert!(r.1 == TT::Comment(if first { CommentKind::IndividualLine } else { CommentKind::InlineLine }),
            "OB lexcomplex/line_comment_kind: first on its line => individual, otherwise inline");
    }
    #[kani::proof]
    #[kani::unwind(8)]
    fn lexcomplex_line_comment5() { run_line_comment::<5>(&[], 0); }
    #[kani::proof]
    #[kani::unwind(9)]
    fn lexcomplex_line_comment_multibyte() { run_line_comment::<6>(&[0xC3, 0xA9], 3); }

    // line comment preceded by whitespace: kind depends on a LF in the text before the comment
    #[kani::proof]
    #[kani::unwind(8)]
    fn lexcomplex_line_comment_kind_by_lf() {
        let w: [u8; 2] = kani::any();
        kani::assume((w[0] == b' ' || w[0] == b'\n' || w[0] == b'\r' || w[0] == b'\t') && (w[1] == b' ' || w[1] == b'\n' || w[1] == b'\r' || w[1] == b'\t'));
        let buf = [w[0], w[1], b'/', b'/', b'x'];
        let s = as_str(&buf);
        let mut state = st(false, false);
        let r = line_comment(LexArgs { input: s, offset: 4, lex_state: &mut state });
        // a line break before the comment: LF or a lone CR (the scanner ends comments and literals at either)
        let lf = w[0] == b'\n' || w[1] == b'\n' || w[0] == b'\r' || w[1] == b'\r';
        kani::cover!(w[0] != b'\n' && w[1] != b'\n' && (w[0] == b'\r' || w[1] == b'\r'), "CR only before the comment");
        assert!(r.1 == TT::Comment(if lf { CommentKind::IndividualLine } else { CommentKind::InlineLine }),
            "OB lexcomplex/line_comment_kind: first on its line => individual, otherwise inline");
    }

    // block comments `{...}` and `(*...*)`
    fn run_block<const N: usize>(alt: bool) {
        let mut buf = [0u8; N];
        window(&mut buf, &[], 0);
        let start = if alt { buf[0] = b'('; buf[1] = b'*'; 2 } else { buf[0] = b'{'; 1 };
        kani::assume(buf[start] != b'$');
        let s = as_str(&buf);
        let first: bool = kani::any();
        let mut state = st(first, false);
        let a = LexArgs { input: s, offset: start, lex_state: &mut state };
        let r = if alt { block_comment_alt(a) } else { block_comment(a) };
        // oracle
        let mut e = start;
        let mut found = false;
        while e < N && !found {
            if !alt && buf[e] == b'}' {
                found = true;
                e += 1;
            } else if alt && e + 1 < N && buf[e] == b'*' && buf[e + 1] == b')' {
                found = true;
                e += 2;
            } else {
                e += 1;
            }
        }
        kani::cover!(found, "terminated block comment");
        kani::cover!(!found, "unterminated block comment");
        assert!(sub_ok(s, start, r), "OB lexcomplex/block_comment_ok: end within the input, on a character boundary");
        if found {
            let mut nl_inside = false;
            let mut i = start;
            while i < e {
                if buf[i] == b'\n' { nl_inside = true; }
                i += 1;
            }
            assert!(r.0 == e, "OB lexcomplex/block_comment_extent: a block comment ends with its first terminator");
            let k = if nl_inside { CommentKind::MultilineBlock } else if first { CommentKind::IndividualBlock } else { CommentKind::InlineBlock };
            assert!(r.1 == TT::Comment(k), "OB lexcomplex/block_comment_kind: LF inside => multi-line; else first on line => individual; else inline");
        } else {
            // unterminated: everything up to the trailing blanks of the input
            let mut t = N;
            while t > 0 && buf[t - 1] <= 0x20 {
                t -= 1;
            }
            assert!(r.0 == t && r.1 == TT::Comment(CommentKind::MultilineBlock), "OB lexcomplex/block_comment_unterminated: an unterminated comment takes the rest of the input except trailing blanks");
        }
    }
    #[kani::proof]
    #[kani::unwind(8)]
    fn lexcomplex_block_brace4() { run_block::<4>(false); }
    #[kani::proof]
    #[kani::unwind(9)]
    fn lexcomplex_block_alt5() { run_block::<5>(true); }

    // decimal numbers
    fn run_dec<const N: usize>() {
        let mut buf = [0u8; N];
        window(&mut buf, &[], 0);
        kani::assume(buf[0] >= b'0' && buf[0] <= b'9');
        let s = as_str(&buf);
        let mut state = st(false, false);
        let r = dec_number_literal(LexArgs { input: s, offset: 1, lex_state: &mut state });
        // oracle: digits [. digits] [e|E [+|-] digits]   (digits = [0-9_]*, a fraction / exponent part cannot start with '_')
        let mut e = 1 + run(&buf, 1, is_dec);
        if e < N && buf[e] == b'.' {
            let f = if e + 1 < N && buf[e + 1] == b'_' { 0 } else { run(&buf, e + 1, is_dec) };
            if f > 0 {
                e += 1 + f;
            }
        }
        if e < N && (buf[e] == b'e' || buf[e] == b'E') {
            e += 1;
            if e < N && (buf[e] == b'+' || buf[e] == b'-') {
                e += 1;
            }
            e += if e < N && buf[e] == b'_' { 0 } else { run(&buf, e, is_dec) };
        }
        kani::cover!(e == N && N > 3, "number fills the window");
        assert!(sub_ok(s, 1, r), "OB lexcomplex/dec_number_ok: end within the input, on a character boundary");
        assert!(r.0 == e && r.1 == TT::NumberLiteral(NLK::Decimal), "OB lexcomplex/dec_number_extent: digits, optional fraction, optional exponent with sign");
    }
    #[kani::proof]
    #[kani::unwind(9)]
    fn lexcomplex_dec_number5() { run_dec::<5>(); }

    // identifiers and keywords: extent only (after `.` no keyword lookup happens)
    #[kani::proof]
    #[kani::unwind(8)]
    #[kani::stub(find_identifier_end_x86_64, find_identifier_end_generic)]
    fn lexcomplex_word_extent() {
        let mut buf = [0u8; 5];
        window(&mut buf, &[], 0);
        kani::assume((buf[0] >= b'a' && buf[0] <= b'z') || (buf[0] >= b'A' && buf[0] <= b'Z'));
        let s = as_str(&buf);
        let mut state = st(false, false);
        state.prev_real_token = Some(TT::Op(OK::Dot));
        let r = identifier_or_keyword(LexArgs { input: s, offset: 1, lex_state: &mut state });
        let e = 1 + run(&buf, 1, is_ident_ascii);
        kani::cover!(e == 5, "word fills the window");
        kani::cover!(e == 1, "one-letter word");
        assert!(sub_ok(s, 1, r) && r.0 == e, "OB lexcomplex/word_extent: a word is the maximal run of identifier characters");
        assert!(r.1 == TT::Identifier, "OB lexcomplex/word_after_dot: after `.` every word is an identifier");
        assert!(!state.in_asm, "OB lexcomplex/asm_mode_entered: the keyword asm (and only it) switches to the asm scanner");
    }

    // a quote + 2 bytes: the cheap sibling of lexcomplex_text_literal4
    #[kani::proof]
    #[kani::unwind(4)]
    fn lexcomplex_text_literal3() { run_text::<3>(); }

    // identifiers and keywords
    #[kani::proof]
    #[kani::unwind(124)]
    #[kani::stub(find_identifier_end_x86_64, find_identifier_end_generic)]
    fn lexcomplex_identifier_or_keyword() {
        let mut buf = [0u8; 4];
        window(&mut buf, &[], 0);
        kani::assume((buf[0] >= b'a' && buf[0] <= b'z') || (buf[0] >= b'A' && buf[0] <= b'Z'));
        let s = as_str(&buf);
        let after_dot: bool = kani::any();
        let mut state = st(false, false);
        if after_dot {
            state.prev_real_token = Some(TT::Op(OK::Dot));
        }
        let r = identifier_or_keyword(LexArgs { input: s, offset: 1, lex_state: &mut state });
        let e = 1 + run(&buf, 1, is_ident_ascii);
        let word = as_str(&buf[..e]);
        kani::cover!(r.1 != TT::Identifier, "keyword recognised");
        assert!(sub_ok(s, 1, r) && r.0 == e, "OB lexcomplex/word_extent: a word is the maximal run of identifier characters");
        if after_dot {
            assert!(r.1 == TT::Identifier, "OB lexcomplex/word_after_dot: after `.` every word is an identifier");
        } else {
            assert!(r.1 == get_word_token_type(word), "OB lexcomplex/word_kind: the kind of a word is that of the keyword table");
        }
        assert!(state.in_asm == (r.1 == TT::Keyword(KK::Asm)), "OB lexcomplex/asm_mode_entered: the keyword asm (and only it) switches to the asm scanner");
    }

    #[kani::proof]
    #[kani::unwind(9)]
    #[kani::stub(find_identifier_end_x86_64, find_identifier_end_generic)]
    fn lexcomplex_asm_identifier() {
        let mut buf = [0u8; 4];
        window(&mut buf, &[], 0);
        kani::assume(buf[0] == b'a' || buf[0] == b'A' || buf[0] == b'e' || buf[0] == b'E');
        let s = as_str(&buf);
        let mut state = st(false, true);
        let r = asm_identifier(LexArgs { input: s, offset: 1, lex_state: &mut state });
        let e = 1 + run(&buf, 1, is_ident_ascii);
        let lowc = |b: u8| if b >= b'A' && b <= b'Z' { b + 32 } else { b };
        let is_end = e == 3 && lowc(buf[0]) == b'e' && lowc(buf[1]) == b'n' && lowc(buf[2]) == b'd';
        let is_asm = e == 3 && lowc(buf[0]) == b'a' && lowc(buf[1]) == b's' && lowc(buf[2]) == b'm';
        kani::cover!(is_end, "end keyword");
        assert!(sub_ok(s, 1, r) && r.0 == e, "OB lexcomplex/asm_word_extent: a word is the maximal run of identifier characters");
        assert!(r.1 == if is_end { TT::Keyword(KK::End) } else if is_asm { TT::Keyword(KK::Asm) } else { TT::Identifier }, "OB lexcomplex/asm_word_kind: inside asm only end and asm are keywords");
        assert!(state.in_asm == !is_end, "OB lexcomplex/asm_mode_left: end (and only it) leaves the asm scanner");
    }

    // text literals
    fn run_text<const N: usize>() {
        let mut buf = [0u8; N];
        window(&mut buf, &[], 0);
        buf[0] = b'\'';
        let s = as_str(&buf);
        let mut state = st(false, false);
        let r = text_literal(LexArgs { input: s, offset: 1, lex_state: &mut state });
        kani::cover!(r.1 == TT::TextLiteral(TLK::SingleLine), "terminated single-line literal");
        kani::cover!(r.1 == TT::TextLiteral(TLK::Unterminated), "unterminated literal");
        assert!(sub_ok(s, 0, r) && r.0 >= 1, "OB lexcomplex/text_literal_ok: end within the input, on a character boundary, at least the opening quote consumed");
        assert!(matches!(r.1, TT::TextLiteral(_)), "OB lexcomplex/text_literal_kind: a quote starts a text literal");
        // a single-line literal never spans a line break (the multi-line opener: odd run of >= 3 quotes + line break)
        let mut q0 = 0;
        while q0 < N && buf[q0] == b'\'' {
            q0 += 1;
        }
        let multi_opener = q0 >= 3 && q0 % 2 == 1 && q0 < N && (buf[q0] == b'\n' || buf[q0] == b'\r');
        if !multi_opener {
            assert!(r.1 != TT::TextLiteral(TLK::MultiLine), "OB lexcomplex/text_literal_multiline_opener: only an odd run of >= 3 quotes followed by a line break opens a multi-line literal");
            let mut i = 0;
            while i < r.0 {
                assert!(buf[i] != b'\n' && buf[i] != b'\r', "OB lexcomplex/text_literal_single_line: single-line and unterminated literals contain no line break");
                i += 1;
            }
        }
        if r.1 == TT::TextLiteral(TLK::SingleLine) {
            // quotes balance: the number of quote characters inside is even
            let mut q = 0;
            let mut i = 0;
            while i < r.0 {
                if buf[i] == b'\'' { q += 1; }
                i += 1;
            }
            assert!(q % 2 == 0, "OB lexcomplex/text_literal_balanced: a terminated literal has balanced quotes");
            assert!(r.0 == N || buf[r.0] != b'\'', "OB lexcomplex/text_literal_maximal: a literal does not stop in front of a quote");
        }
    }
    #[kani::proof]
    #[kani::unwind(5)]
    fn lexcomplex_text_literal4() { run_text::<4>(); }

    #[kani::proof]
    #[kani::unwind(8)]
    fn lexcomplex_asm_text_literal() {
        let mut buf = [0u8; 4];
        window(&mut buf, &[], 0);
        buf[0] = b'"';
        let s = as_str(&buf);
        let mut state = st(false, true);
        let r = asm_text_literal(LexArgs { input: s, offset: 1, lex_state: &mut state });
        // oracle
        let mut i = 1;
        let mut term = false;
        while i < 4 && !term {
            if buf[i] == b'\\' {
                i += 1;
                if i < 4 { i += 1; }
            } else if buf[i] == b'"' {
                term = true;
                i += 1;
            } else if buf[i] == b'\n' || buf[i] == b'\r' {
                break;
            } else {
                i += 1;
            }
        }
        kani::cover!(term, "terminated asm string");
        assert!(sub_ok(s, 1, r), "OB lexcomplex/asm_text_ok: end within the input, on a character boundary");
        assert!(r.0 == i && r.1 == TT::TextLiteral(if term { TLK::Asm } else { TLK::Unterminated }), "OB lexcomplex/asm_text_extent: a double-quoted string ends at its closing quote, or before a line break / at the end if unterminated");
    }

    // compiler directives `{$...}`
    #[kani::proof]
    #[kani::unwind(9)]
    fn lexcomplex_directive_brace() {
        let mut buf = [0u8; 5];
        window(&mut buf, &[], 0);
        buf[0] = b'{';
        buf[1] = b'$';
        // keep the directive name free of nested constructs: the nested-expression scanner is covered separately
        let s = as_str(&buf);
        let mut state = st(false, false);
        let r = compiler_directive(LexArgs { input: s, offset: 2, lex_state: &mut state }, BlockCommentKind::Brace);
        let _n5 = 5;
        kani::cover!(matches!(r.1, TT::ConditionalDirective(_)), "conditional directive");
        kani::cover!(r.1 == TT::CompilerDirective, "plain directive");
        assert!(sub_ok(s, 2, r), "OB lexcomplex/directive_ok: end within the input, on a character boundary");
        assert!(matches!(r.1, TT::ConditionalDirective(_) | TT::CompilerDirective), "OB lexcomplex/directive_kind: brace-dollar starts a directive");
        let name_end = 2 + run(&buf, 2, is_ident_ascii);
        let lowc = |b: u8| if b >= b'A' && b <= b'Z' { b + 32 } else { b };
        let is_if = name_end == 4 && lowc(buf[2]) == b'i' && lowc(buf[3]) == b'f';
        assert!(!is_if || r.1 == TT::ConditionalDirective(CDK::If), "OB lexcomplex/directive_if: brace-dollar-if is the conditional directive If");
    }

    #[kani::proof]
    #[kani::unwind(8)]
    #[kani::stub(find_identifier_end_x86_64, find_identifier_end_generic)]
    fn lexcomplex_misc() {
        // ampersand, asm_label, unknown, unicode_identifier on small windows
        let mut buf = [0u8; 4];
        window(&mut buf, &[], 0);
        let s = as_str(&buf);
        let mut state = st(false, false);
        if buf[0] == b'&' {
            let r = ampersand(LexArgs { input: s, offset: 1, lex_state: &mut state });
            assert!(sub_ok(s, 1, r), "OB lexcomplex/ampersand_ok: end within the input, on a character boundary");
        } else if buf[0] == b'@' {
            let r = asm_label(LexArgs { input: s, offset: 1, lex_state: &mut state });
            let e = 1 + run(&buf, 1, |b| is_ident_ascii(b) || b == b'@');
            assert!(sub_ok(s, 1, r) && r.0 == e && r.1 == TT::Identifier, "OB lexcomplex/asm_label: `@` + identifier characters and `@`");
        } else {
            let r = unknown(LexArgs { input: s, offset: 1, lex_state: &mut state });
            assert!(r.0 == 1 && r.1 == TT::Unknown, "OB lexcomplex/unknown_one_byte: an unexpected byte becomes a one-byte Unknown token");
        }
        kani::cover!(buf[0] == b'&', "ampersand");
        kani::cover!(buf[0] == b'@', "label");
    }

    #[kani::proof]
    #[kani::unwind(8)]
    #[kani::stub(find_identifier_end_x86_64, find_identifier_end_generic)]
    fn lexcomplex_unicode_identifier() {
        // é x  /  U+20AC (3 bytes)  /  U+1F600 (4 bytes): the scanner is entered one byte into the scalar
        let which: u8 = kani::any();
        kani::assume(which < 3);
        let tail: u8 = kani::any();
        kani::assume(tail < 0x80);
        let b2 = [0xC3, 0xA9, tail, b' ', b' '];
        let b3 = [0xE2, 0x82, 0xAC, tail, b' '];
        let b4 = [0xF0, 0x9F, 0x98, 0x80, tail];
        let (buf, n) = match which { 0 => (b2, 2), 1 => (b3, 3), _ => (b4, 4) };
        let s = as_str(&buf);
        let mut state = st(false, false);
        let r = unicode_identifier(LexArgs { input: s, offset: 1, lex_state: &mut state });
        let e = n + run(&buf, n, is_ident_ascii);
        kani::cover!(which == 2, "four-byte scalar");
        assert!(sub_ok(s, 1, r), "OB lexcomplex/unicode_identifier_ok: end within the input, on a character boundary");
        assert!(r.0 == e && r.1 == TT::Identifier, "OB lexcomplex/unicode_identifier_extent: a non-ASCII character starts an identifier that continues with identifier characters");
    }
}
