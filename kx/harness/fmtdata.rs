// `fmtdata` — what of a token's original whitespace survives: FormattingData::from((ws, ignored)),
// FormattedTokens::{get_token_mut, new_from_tokens}, From<RawToken> for Token.
#[cfg(kani)]
mod verif_fmtdata {
    use super::*;

    // C06/C09: the original whitespace is reduced to (number of '\n', blanks after the last '\n' not
    // counting a trailing '\r'); nothing else of it is kept, and '\r' never adds a line.
    fn run_from<const K: usize>() {
        let b: [u8; K] = kani::any();
        let mut i = 0;
        let mut nl = 0u16;
        let mut last = 0usize; // start of the last line
        while i < K {
            kani::assume(b[i] == b' ' || b[i] == b'\t' || b[i] == b'\n' || b[i] == b'\r');
            if b[i] == b'\n' {
                nl += 1;
                last = i + 1;
            }
            i += 1;
        }
        // blanks of the last line, without trailing '\r's; every remaining byte is ASCII blank, so all of it counts
        let mut end = K;
        while end > last && b[end - 1] == b'\r' {
            end -= 1;
        }
        // SAFETY: ASCII only
        let s = unsafe { core::str::from_utf8_unchecked(&b) };
        let ignored: bool = kani::any();
        let d = FormattingData::from((s, ignored));
        kani::cover!(nl == 2, "two line feeds");
        kani::cover!(end < K, "a trailing carriage return");
        assert!(d.newlines_before == nl, "OB fmtdata/newlines_counts_only_lf: newlines_before = number of LF bytes; CR never counts");
        assert!(d.spaces_before as usize == end - last, "OB fmtdata/spaces_last_line: spaces_before = blanks after the last LF, not counting trailing CR");
        assert!(d.indentations_before == 0 && d.continuations_before == 0, "OB fmtdata/no_indentation_from_input: indentation and continuation start at 0");
        assert!(d.is_ignored() == ignored, "OB fmtdata/ignored_flag: the ignored flag is the marker's");
    }

    #[kani::proof]
    #[kani::unwind(6)]
    fn fmtdata_from_k3() {
        run_from::<3>();
    }

    #[kani::proof]
    #[kani::unwind(7)]
    fn fmtdata_from_k4() {
        run_from::<4>();
    }

    // C07 frame: a rule cannot obtain the text of an ignored token mutably
    #[kani::proof]
    #[kani::unwind(4)]
    fn fmtdata_ignored_guard() {
        let ign: [bool; 2] = kani::any();
        let mut toks = [Token::new_ref("a", 0, TokenType::Identifier), Token::new_ref(" b", 1, TokenType::Identifier)];
        let mut ft = FormattedTokens::verif_new(&mut toks, vec![
            FormattingData::verif_new(ign[0], 0, 0, 0, 0),
            FormattingData::verif_new(ign[1], 0, 0, 0, 1),
        ]);
        let idx: usize = kani::any();
        kani::assume(idx <= 2);
        kani::cover!(idx == 1 && ign[1], "ignored token requested mutably");
        match ft.get_token_mut(idx) {
            None => assert!(idx >= 2, "OB fmtdata/guard_get_token_mut: in-range index yields an entry"),
            Some((tok, _)) => {
                assert!(idx < 2, "OB fmtdata/guard_get_token_mut: out-of-range index yields None");
                assert!(tok.is_err() == ign[idx], "OB fmtdata/guard_get_token_mut: Err(TokenIgnored) exactly for ignored tokens");
            }
        }
        let mut n = 0;
        for (tok, fmt) in ft.tokens_mut() {
            assert!(tok.is_err() == fmt.is_ignored(), "OB fmtdata/guard_tokens_mut: the mutable iterator hides exactly the ignored tokens");
            n += 1;
        }
        assert!(n == 2, "OB fmtdata/guard_tokens_mut: the mutable iterator visits every token once");
    }

    // C01 (L2): scanner token -> formatter token keeps text and whitespace length; kinds map 1:1
    #[kani::proof]
    #[kani::unwind(6)]
    fn fmtdata_token_from_raw() {
        let rt: RawTokenType = kani::any();
        let ws: u32 = kani::any();
        kani::assume(ws <= 2);
        let raw = RawToken::new("  ab", ws, rt);
        let t: Token = raw.into();
        kani::cover!(matches!(rt, RawTokenType::IdentifierOrKeyword(_)), "contextual keyword");
        assert!(t.get_str() == "  ab" && t.get_leading_whitespace().len() == ws as usize, "OB fmtdata/token_from_raw_text: text and whitespace length are kept");
        let ok = match (rt, t.get_token_type()) {
            (RawTokenType::IdentifierOrKeyword(_), TokenType::Identifier) => true,
            (RawTokenType::Identifier, TokenType::Identifier) => true,
            (RawTokenType::Op(a), TokenType::Op(b)) => a == b,
            (RawTokenType::Keyword(a), TokenType::Keyword(b)) => a == b,
            (RawTokenType::TextLiteral(a), TokenType::TextLiteral(b)) => a == b,
            (RawTokenType::NumberLiteral(a), TokenType::NumberLiteral(b)) => a == b,
            (RawTokenType::ConditionalDirective(a), TokenType::ConditionalDirective(b)) => a == b,
            (RawTokenType::CompilerDirective, TokenType::CompilerDirective) => true,
            (RawTokenType::Comment(a), TokenType::Comment(b)) => a == b,
            (RawTokenType::Eof, TokenType::Eof) => true,
            (RawTokenType::Unknown, TokenType::Unknown) => true,
            _ => false,
        };
        assert!(ok, "OB fmtdata/token_from_raw_kind: every scanner kind maps to the formatter kind of the same name (contextual keywords to Identifier)");
    }
}
