// U6 `recon` — functional contract of DelphiLogicalLinesReconstructor::reconstruct.
//
// out' == out ++ SUM_i (ws_i ++ content_i), in token order, where for a token that is
//   not ignored: ws_i = NL^n IND^ind CONT^cont ' '^sp, n = 1 if the previous token is a
//                single-line comment, newlines_before == 0 and the token is not Eof (safety net),
//                else newlines_before;  NL / IND / CONT are the configured strings at every site;
//   ignored:     ws_i = the token's original leading whitespace, byte for byte   (C07)
// Precondition taken from the scanner's contract (lexcomplex::line_comment): a single-line
// comment ends only at '\n', '\r' or end of input, so the token after it either is Eof or its
// leading whitespace contains '\n' or '\r'.
#[cfg(kani)]
mod verif_recon {
    use super::*;
    use crate::lang::verif_util::*;

    const CAP: usize = 48;
    struct Exp {
        b: [u8; CAP],
        n: usize,
    }
    impl Exp {
        fn push_str(&mut self, s: &str) {
            let bs = s.as_bytes();
            let mut i = 0;
            while i < bs.len() {
                self.b[self.n] = bs[i];
                self.n += 1;
                i += 1;
            }
        }
        fn rep(&mut self, s: &str, k: u16) {
            let mut i = 0;
            while i < k {
                self.push_str(s);
                i += 1;
            }
        }
    }

    fn settings(crlf: bool, hard: bool, shape: u8) -> (ReconstructionSettings, &'static str, &'static str, &'static str) {
        // widths 1 or 2: enough to tell indentation, continuation and spaces apart
        // shape 0: (1, 2), shape 1: (2, 1), shape 2: (1, 0) - an empty continuation string (continuation_indents = 0)
        let (iw, cw): (u8, u16) = match shape { 1 => (2, 1), 2 => (1, 0), _ => (1, 2) };
        let rs = ReconstructionSettings::new(
            if crlf { LineEnding::Crlf } else { LineEnding::Lf },
            if hard { TabKind::Hard } else { TabKind::Soft },
            iw,
            cw,
        );
        let nl = if crlf { "\r\n" } else { "\n" };
        let (ind, cont) = match (hard, shape) {
            (true, 1) => ("\t\t", "\t"),
            (true, 2) => ("\t", ""),
            (true, _) => ("\t", "\t\t"),
            (false, 1) => ("  ", " "),
            (false, 2) => (" ", ""),
            (false, _) => (" ", "  "),
        };
        (rs, nl, ind, cont)
    }

    fn is_line_comment(tt: TokenType) -> bool {
        matches!(tt, TokenType::Comment(CommentKind::InlineLine) | TokenType::Comment(CommentKind::IndividualLine))
    }

    fn kind(k: u8) -> TokenType {
        match k {
            0 => TokenType::Comment(CommentKind::InlineLine),
            1 => TokenType::Comment(CommentKind::IndividualLine),
            2 => TokenType::Comment(CommentKind::InlineBlock),
            3 => TokenType::Eof,
            4 => TokenType::Keyword(KeywordKind::Begin),
            _ => TokenType::Identifier,
        }
    }

    // expected leading text of one token, written without looking at the code under test
    fn expect_ws(exp: &mut Exp, ws: &str, ignored: bool, c: (u16, u16, u16, u16), prev_line_comment: bool, is_eof: bool, nl: &str, ind: &str, cont: &str) {
        if ignored {
            exp.push_str(ws);
        } else {
            let n = if prev_line_comment && c.0 == 0 && !is_eof { 1 } else { c.0 };
            exp.rep(nl, n);
            exp.rep(ind, c.1);
            exp.rep(cont, c.2);
            exp.rep(" ", c.3);
        }
    }

    // One case = concrete counters and settings (so that every length is concrete); symbolic:
    // both token kinds, the ignored flag, the two original whitespace bytes, the content byte.
    fn run_pair(c1: (u16, u16, u16, u16), crlf: bool, hard: bool, shape: u8) {
        let (rs, nl, ind, cont) = settings(crlf, hard, shape);
        let k0: u8 = kani::any();
        let k1: u8 = kani::any();
        kani::assume(k0 <= 5 && k1 <= 5);
        let (tt0, tt1) = (kind(k0), kind(k1));
        let ignored0: bool = kani::any();
        let ignored1: bool = kani::any();
        let buf: [u8; 3] = kani::any();
        kani::assume(blank(buf[0]) && blank(buf[1]) && buf[2] > 0x20 && buf[2] < 0x7f);
        let s1 = ascii(&buf);
        let is_eof1 = matches!(tt1, TokenType::Eof);
        // scanner contract: after a single-line comment comes a line break (or Eof)
        let has_break = buf[0] == b'\n' || buf[0] == b'\r' || buf[1] == b'\n' || buf[1] == b'\r';
        kani::assume(!is_line_comment(tt0) || is_eof1 || has_break);

        let mut toks = [Token::new_ref("//a", 0, tt0), Token::new_ref(s1, 2, tt1)];
        let fmt = vec![
            FormattingData::verif_new(ignored0, 0, 0, 0, 0),
            FormattingData::verif_new(ignored1, c1.0, c1.1, c1.2, c1.3),
        ];
        let ft = FormattedTokens::verif_new(&mut toks, fmt);
        let r = DelphiLogicalLinesReconstructor::new(rs);
        let mut out = String::from("x");
        r.reconstruct(ft, &mut out);

        let mut exp = Exp { b: [0; CAP], n: 0 };
        exp.push_str("x//a");
        expect_ws(&mut exp, &s1[..2], ignored1, c1, is_line_comment(tt0), is_eof1, nl, ind, cont);
        exp.push_str(&s1[2..]);

        kani::cover!(is_line_comment(tt0) && !ignored1 && !is_eof1, "formatted token after a line comment");
        kani::cover!(is_line_comment(tt0) && ignored1 && !is_eof1 && buf[0] == b'\r' && buf[1] == b' ', "ignored token after a CR-terminated comment");
        kani::cover!(ignored1 && !is_line_comment(tt0), "ignored token elsewhere");
        kani::cover!(ignored0 && is_line_comment(tt0) && !ignored1 && !is_eof1 && c1.0 == 0, "formatted token without a line break after an IGNORED line comment (safety net still applies)");
        assert!(out.len() == exp.n, "OB recon/emitted_length: reconstruct emits exactly ws_i ++ content_i per token (length)");
        let ob = out.as_bytes();
        let mut i = 0;
        while i < exp.n && i < ob.len() {
            assert!(ob[i] == exp.b[i], "OB recon/emitted_bytes: reconstruct output equals the contract string byte for byte");
            i += 1;
        }
    }

    // quick tier
    #[kani::proof]
    #[kani::unwind(8)]
    fn recon_c0000_lf() {
        run_pair((0, 0, 0, 0), false, false, 1);
    }
    #[kani::proof]
    #[kani::unwind(12)]
    fn recon_c1111_crlf() {
        run_pair((1, 1, 1, 1), true, false, 1);
    }
    // hard tabs with an empty continuation string (use_tabs, continuation_indents = 0): indentation is still tabs
    #[kani::proof]
    #[kani::unwind(12)]
    fn recon_c1111_lf_tabs_nocont() {
        run_pair((1, 1, 1, 1), false, true, 2);
    }
    // thorough tier
    #[kani::proof]
    #[kani::unwind(8)]
    fn recon_c0000_crlf_tabs() {
        run_pair((0, 0, 0, 0), true, true, 0);
    }
    #[kani::proof]
    #[kani::unwind(14)]
    fn recon_c2121_lf_tabs() {
        run_pair((2, 1, 2, 1), false, true, 0);
    }
    #[kani::proof]
    #[kani::unwind(14)]
    fn recon_c0212_crlf() {
        run_pair((0, 2, 1, 2), true, false, 0);
    }
    #[kani::proof]
    #[kani::unwind(12)]
    fn recon_c1002_lf() {
        run_pair((1, 0, 0, 2), false, false, 1);
    }
}
