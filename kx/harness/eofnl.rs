// EofNewline::format: the end-of-file token gets (1,0,0,0); nothing else changes.
#[cfg(kani)]
mod verif_eofnl {
    use super::*;
    use crate::traits::LogicalLineFormatter;

    #[kani::proof]
    #[kani::unwind(4)]
    fn eofnl_two_tokens() {
        let last: TokenType = kani::any();
        let c0: (u16, u16, u16, u16) = kani::any();
        let c1: (u16, u16, u16, u16) = kani::any();
        let mut toks = [Token::new_ref("a", 0, TokenType::Identifier), Token::new_ref(" ", 1, last)];
        let mut ft = FormattedTokens::verif_new(&mut toks, vec![
            FormattingData::verif_new(false, c0.0, c0.1, c0.2, c0.3),
            FormattingData::verif_new(false, c1.0, c1.1, c1.2, c1.3),
        ]);
        let line = LogicalLine::new(None, 0, vec![1], LogicalLineType::Eof);
        EofNewline {}.format(&mut ft, &line);
        let d0 = ft.get_formatting_data(0).unwrap();
        let d1 = ft.get_formatting_data(1).unwrap();
        let is_eof = matches!(last, TokenType::Eof);
        kani::cover!(is_eof && c1.0 == 0, "Eof that had no line break");
        kani::cover!(!is_eof, "last token is not Eof");
        assert!(d0.newlines_before == c0.0 && d0.indentations_before == c0.1 && d0.continuations_before == c0.2 && d0.spaces_before == c0.3,
            "OB eofnl/frame: tokens other than the last are untouched");
        if is_eof {
            assert!(d1.newlines_before == 1 && d1.indentations_before == 0 && d1.continuations_before == 0 && d1.spaces_before == 0,
                "OB eofnl/one_terminator: the end-of-file token gets exactly one line break and no indentation or spaces");
        } else {
            assert!(d1.newlines_before == c1.0 && d1.indentations_before == c1.1 && d1.continuations_before == c1.2 && d1.spaces_before == c1.3,
                "OB eofnl/frame: a last token that is not Eof is untouched");
        }
    }
}
