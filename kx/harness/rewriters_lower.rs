// U9 `rewriters` (keyword part) — LowercaseKeywords::format on one token of symbolic ASCII text, ANY kind.
#[cfg(kani)]
mod verif_lower {
    use super::*;

    fn run<const K: usize>() {
        let buf: [u8; K] = kani::any();
        let mut full = [b' '; 8];
        let mut i = 0;
        while i < K {
            kani::assume(buf[i] > 0x20 && buf[i] < 0x7f);
            full[1 + i] = buf[i];
            i += 1;
        }
        // SAFETY: ASCII only
        let text = unsafe { core::str::from_utf8_unchecked(&full[..1 + K]) };
        let tt: TokenType = kani::any();
        let ignored: bool = kani::any();
        let mut toks = [Token::new_ref(text, 1, tt)];
        let mut ft = FormattedTokens::verif_new(&mut toks, vec![FormattingData::verif_new(ignored, 4, 3, 2, 1)]);
        LowercaseKeywords {}.format(&mut ft, &[]);
        let (tok, fmt) = ft.get_token(0).unwrap();
        let got = tok.get_content().as_bytes();
        let is_kw = matches!(tt, TokenType::Keyword(_));
        kani::cover!(is_kw && !ignored && got[0] != buf[0], "a keyword letter was lower-cased");
        kani::cover!(ignored && is_kw, "ignored keyword");
        assert!(got.len() == K, "OB rewriters/lower_length: lower-casing keeps the token length");
        let mut j = 0;
        while j < K && j < got.len() {
            let lower = if buf[j] >= b'A' && buf[j] <= b'Z' { buf[j] + 32 } else { buf[j] };
            if is_kw && !ignored {
                assert!(got[j] == lower, "OB rewriters/lower_keyword: an unignored keyword becomes its ASCII lower-case form");
            } else {
                assert!(got[j] == buf[j], "OB rewriters/lower_others_untouched: identifiers, literals, comments and ignored tokens are reproduced exactly");
            }
            j += 1;
        }
        assert!(tok.get_token_type() == tt, "OB rewriters/lower_kind_kept: lower-casing does not change the token kind");
        assert!(fmt.newlines_before == 4 && fmt.indentations_before == 3 && fmt.continuations_before == 2 && fmt.spaces_before == 1,
            "OB rewriters/lower_frame: lower-casing does not write formatting counters");
    }

    #[kani::proof]
    #[kani::unwind(6)]
    fn lower_k3() {
        run::<3>();
    }

    #[kani::proof]
    #[kani::unwind(8)]
    fn lower_k5() {
        run::<5>();
    }
}
