// U17 `cursor` — re-projection of attached cursors: CursorTrackerImpl::relocate_cursors,
// offset_for_token, ws_len, nonbreaking_ws_len, col_for_token_end_post_fmt.
//
// For EVERY attached position (token index in or out of range, every u32/u16 field value of the
// position kind) and every formatting state within the bound:
//   no arithmetic overflow / panic (Kani's own checks);
//   the projected cursor lies within the output that reconstruct emits for the same state;
//   Content{offset} in a token lands at start_of_content + min(offset, len);
//   a token index past the end lands at the end of the output.
// The attachment step (process_cursors) is not under contract; starting from an arbitrary attached
// position over-approximates whatever it produces.
#[cfg(kani)]
mod verif_cursor {
    use super::*;

    struct St {
        total: usize,
        start1: usize,
        len1: usize,
        start0: usize,
    }

    // tokens: "a" | ws1+text1 | Eof("\n")
    fn run(pos: TokPos, text1: &'static str, ws1: u32, tt1: TokenType, fixed_idx: Option<usize>, may_ignore: bool, cmax: (u16, u16, u16, u16)) {
        let crlf: bool = kani::any();
        let rs = ReconstructionSettings::new(if crlf { LineEnding::Crlf } else { LineEnding::Lf }, TabKind::Soft, 2, 3);
        let nl_len = if crlf { 2 } else { 1 };
        let recon = DelphiLogicalLinesReconstructor::new(rs);
        let c1: (u16, u16, u16, u16) = kani::any();
        kani::assume(c1.0 <= cmax.0 && c1.1 <= cmax.1 && c1.2 <= cmax.2 && c1.3 <= cmax.3);
        let ign1: bool = if may_ignore { kani::any() } else { false };
        let nl2: u16 = kani::any();
        kani::assume(nl2 <= 1);
        let mut toks = [
            Token::new_ref("a", 0, TokenType::Identifier),
            Token::new_ref(text1, ws1, tt1),
            Token::new_ref("\n", 1, TokenType::Eof),
        ];
        let fmt = vec![
            FormattingData::verif_new(false, 0, 0, 0, 0),
            FormattingData::verif_new(ign1, c1.0, c1.1, c1.2, c1.3),
            FormattingData::verif_new(false, nl2, 0, 0, 0),
        ];
        let ft = FormattedTokens::verif_new(&mut toks, fmt);
        // what reconstruct emits for this state (contract of unit `recon`; no single-line comments here)
        let ws1_len = if ign1 { ws1 as usize } else { c1.0 as usize * nl_len + c1.1 as usize * 2 + c1.2 as usize * 3 + c1.3 as usize };
        let len1 = text1.len() - ws1 as usize;
        let st = St { start0: 0, start1: 1 + ws1_len, len1, total: 1 + ws1_len + len1 + nl2 as usize * nl_len };

        let tok_idx: usize = match fixed_idx { Some(i) => i, None => kani::any() };
        kani::assume(tok_idx <= 4);
        let is_content = matches!(pos, TokPos::Content { .. });
        let content_off = if let TokPos::Content { offset } = pos { offset } else { 0 };
        let mut cur = Cursor(0);
        let mut tracker = CursorTrackerImpl { reconstructor: &recon, cursors: vec![InternalCursor { cursor: &mut cur, tok_idx, tok_pos: pos }] };
        tracker.relocate_cursors(&ft);
        drop(tracker);
        let c = cur.0 as usize;
        kani::cover!(tok_idx == 1 && c1.0 > 0, "cursor on a token that starts a line");
        kani::cover!(c <= st.total, "a projected cursor");
        assert!(c <= st.total, "OB cursor/within_output: projected cursor lies within the emitted output");
        if tok_idx >= 3 {
            assert!(c == st.total, "OB cursor/past_end_maps_to_end: a token index past the end maps to the end of the output");
        }
        if is_content && tok_idx == 1 {
            let o = if (content_off as usize) < st.len1 { content_off as usize } else { st.len1 };
            assert!(c == st.start1 + o, "OB cursor/content_same_offset: Content(offset) lands at the same offset inside the same token");
        }
        if is_content && tok_idx == 0 {
            let o = if content_off < 1 { content_off as usize } else { 1 };
            assert!(c == st.start0 + o, "OB cursor/content_same_offset: Content(offset) lands at the same offset inside the same token");
        }
    }

    const MLC: TokenType = TokenType::Comment(CommentKind::MultilineBlock);

    #[kani::proof]
    #[kani::unwind(7)]
    fn cursor_content_single() {
        let offset: u32 = kani::any();
        run(TokPos::Content { offset }, "  bc", 2, TokenType::Identifier, None, true, (2, 1, 1, 2));
    }

    #[kani::proof]
    #[kani::unwind(8)]
    fn cursor_content_multiline_token() {
        let offset: u32 = kani::any();
        run(TokPos::Content { offset }, " {\n}", 1, MLC, None, true, (1, 1, 0, 1));
    }

    #[kani::proof]
    #[kani::unwind(8)]
    fn cursor_multiline_pos() {
        let reverse_col = kani::any();
        let newlines_after_cursor = kani::any();
        kani::assume(newlines_after_cursor <= 3);
        run(TokPos::MultilineContent { reverse_col, newlines_after_cursor }, " {\n}", 1, MLC, Some(1), false, (1, 0, 0, 0));
    }

    #[kani::proof]
    #[kani::unwind(8)]
    fn cursor_multiline_pos_ignored() {
        let reverse_col = kani::any();
        let newlines_after_cursor = kani::any();
        kani::assume(newlines_after_cursor <= 3);
        run(TokPos::MultilineContent { reverse_col, newlines_after_cursor }, " {\n}", 1, MLC, Some(1), true, (0, 0, 0, 0));
    }

    #[kani::proof]
    #[kani::unwind(7)]
    fn cursor_ws_single() {
        let col = kani::any();
        let newlines_after_cursor = kani::any();
        run(TokPos::Whitespace { col, newlines_after_cursor }, "\n bc", 2, TokenType::Identifier, Some(1), false, (2, 1, 0, 1));
    }

    #[kani::proof]
    #[kani::unwind(7)]
    fn cursor_ws_single_ignored() {
        let col = kani::any();
        let newlines_after_cursor = kani::any();
        run(TokPos::Whitespace { col, newlines_after_cursor }, "\n bc", 2, TokenType::Identifier, Some(1), true, (1, 0, 0, 0));
    }

    #[kani::proof]
    #[kani::unwind(8)]
    fn cursor_ws_multiline_token() {
        let col = kani::any();
        let newlines_after_cursor = kani::any();
        run(TokPos::Whitespace { col, newlines_after_cursor }, "  {\n}", 2, MLC, Some(1), false, (1, 1, 0, 1));
    }

    #[kani::proof]
    #[kani::unwind(8)]
    fn cursor_ws_eof_token() {
        // cursor in the blanks before the end-of-file token
        let col = kani::any();
        let newlines_after_cursor = kani::any();
        run(TokPos::Whitespace { col, newlines_after_cursor }, " b", 1, TokenType::Identifier, Some(2), false, (1, 0, 0, 1));
    }
}
