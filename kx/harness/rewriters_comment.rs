// U9 `rewriters` (comment part) — CommentFormatter::format, format_line_comment, format_compiler_directive.
// One token with symbolic text bytes, ANY TokenType, ignored or not, goes through CommentFormatter::format.
#[cfg(kani)]
mod verif_comment {
    use super::*;
    use crate::lang::verif_util::*;

    fn ws(b: u8) -> bool {
        b == b' ' || b == b'\t' || b == 0x0C || b == b'\n' || b == b'\r'
    }

    // the documented normalisation of a single-line comment, on byte arrays (oracle; N <= 8)
    fn line_comment_oracle(c: &[u8], out: &mut [u8; 16]) -> usize {
        let p = if c.len() > 2 && c[2] == b'/' { 3 } else { 2 };
        let mut n = 0;
        let mut i = 0;
        while i < p {
            out[n] = c[i];
            n += 1;
            i += 1;
        }
        if p < c.len() && !ws(c[p]) {
            out[n] = b' ';
            n += 1;
        }
        while i < c.len() {
            out[n] = c[i];
            n += 1;
            i += 1;
        }
        while n > 0 && ws(out[n - 1]) {
            n -= 1;
        }
        n
    }

    fn line_text<const K: usize>(full: &mut [u8; 8]) -> usize {
        // "//" + K symbolic bytes; a single-line comment never contains a line break (scanner contract)
        let buf: [u8; K] = kani::any();
        full[0] = b'/';
        full[1] = b'/';
        let mut i = 0;
        while i < K {
            kani::assume(buf[i] < 0x80 && buf[i] != b'\n' && buf[i] != b'\r');
            full[2 + i] = buf[i];
            i += 1;
        }
        2 + K
    }

    fn run_line_comment<const K: usize>() {
        let mut full = [0u8; 8];
        let n = line_text::<K>(&mut full);
        // SAFETY: ASCII only
        let text = unsafe { core::str::from_utf8_unchecked(&full[..n]) };
        let mut tok = Token::new_ref(text, 0, TokenType::Comment(CommentKind::InlineLine));
        format_line_comment(&mut tok);
        let mut exp = [0u8; 16];
        let en = line_comment_oracle(text.as_bytes(), &mut exp);
        kani::cover!(en == n + 1, "a space was inserted after the prefix");
        kani::cover!(en < n, "trailing blanks were trimmed");
        let got = tok.get_content().as_bytes();
        assert!(got.len() == en, "OB rewriters/line_comment_text: line comment = prefix, one space if text follows directly, text, trailing blanks trimmed (length)");
        let mut j = 0;
        while j < en && j < got.len() {
            assert!(got[j] == exp[j], "OB rewriters/line_comment_text: line comment = prefix, one space if text follows directly, text, trailing blanks trimmed (bytes)");
            j += 1;
        }
    }

    // a comment already in normal form (blank or nothing after the prefix, no trailing blank) is left alone
    fn run_line_comment_fixpoint<const K: usize>() {
        let mut full = [0u8; 8];
        let n = line_text::<K>(&mut full);
        let p = if full[2] == b'/' { 3 } else { 2 };
        kani::assume(p >= n || ws(full[p]));
        kani::assume(!ws(full[n - 1]));
        // SAFETY: ASCII only
        let text = unsafe { core::str::from_utf8_unchecked(&full[..n]) };
        let mut tok = Token::new_ref(text, 0, TokenType::Comment(CommentKind::IndividualLine));
        format_line_comment(&mut tok);
        kani::cover!(p < n, "text after the prefix");
        let got = tok.get_content().as_bytes();
        assert!(got.len() == n, "OB rewriters/line_comment_fixpoint: normalising a normalised comment changes nothing");
        let mut j = 0;
        while j < n && j < got.len() {
            assert!(got[j] == full[j], "OB rewriters/line_comment_fixpoint: normalising a normalised comment changes nothing");
            j += 1;
        }
    }

    // dispatch: only unignored single-line comments / directives are rewritten; counters are never written
    #[kani::proof]
    #[kani::unwind(8)]
    fn comment_dispatch_line() {
        dispatch(true);
    }

    #[kani::proof]
    #[kani::unwind(8)]
    fn comment_dispatch_directive() {
        dispatch(false);
    }

    fn dispatch(line_shape: bool) {
        let tt: TokenType = kani::any();
        let ignored: bool = kani::any();
        let text = if line_shape { "//x" } else { "{$i+}" };
        let mut toks = [Token::new_ref(text, 0, tt)];
        let mut ft = FormattedTokens::verif_new(&mut toks, vec![FormattingData::verif_new(ignored, 1, 2, 3, 4)]);
        CommentFormatter {}.format(&mut ft, &[]);
        let is_lc = matches!(tt, TokenType::Comment(CommentKind::InlineLine | CommentKind::IndividualLine));
        let is_dir = matches!(tt, TokenType::CompilerDirective | TokenType::ConditionalDirective(_));
        let (tok, fmt) = ft.get_token(0).unwrap();
        let c = tok.get_content().as_bytes();
        kani::cover!((is_lc || is_dir) && !ignored, "token of a kind that is normalised");
        kani::cover!(ignored, "ignored token");
        if line_shape {
            assert!((c.len() == 4) == (is_lc && !ignored), "OB rewriters/comment_dispatch: only unignored single-line comments get the line-comment normalisation");
            assert!(c.len() == 4 || c.len() == 3, "OB rewriters/comment_dispatch: only unignored single-line comments get the line-comment normalisation");
        } else {
            assert!(c.len() == 5 && (c[2] == b'I') == (is_dir && !ignored) && (c[2] == b'I' || c[2] == b'i'), "OB rewriters/comment_dispatch: only unignored directives get the directive normalisation");
        }
        assert!(tok.get_token_type() == tt, "OB rewriters/comment_kind_kept: the comment rule does not change token kinds");
        assert!(fmt.newlines_before == 1 && fmt.indentations_before == 2 && fmt.continuations_before == 3 && fmt.spaces_before == 4,
            "OB rewriters/comment_frame: the comment rule does not write formatting counters");
    }

    #[kani::proof]
    #[kani::unwind(9)]
    fn comment_line_k2() {
        run_line_comment::<2>();
    }

    #[kani::proof]
    #[kani::unwind(10)]
    fn comment_line_k3() {
        run_line_comment::<3>();
    }

    #[kani::proof]
    #[kani::unwind(11)]
    fn comment_line_k4() {
        run_line_comment::<4>();
    }

    #[kani::proof]
    #[kani::unwind(10)]
    fn comment_line_fixpoint_k3() {
        run_line_comment_fixpoint::<3>();
    }

    fn upper(b: u8) -> u8 {
        if b >= b'a' && b <= b'z' { b - 32 } else { b }
    }

    fn run_directive<const K: usize>(alt: bool) {
        let buf: [u8; K] = kani::any();
        let mut full = [b'}'; 12];
        let p = if alt { full[0] = b'('; full[1] = b'*'; full[2] = b'$'; 3 } else { full[0] = b'{'; full[1] = b'$'; 2 };
        let mut i = 0;
        while i < K {
            kani::assume(buf[i] < 0x80);
            full[p + i] = buf[i];
            i += 1;
        }
        let n = p + K + 1;
        // SAFETY: ASCII only
        let text = unsafe { core::str::from_utf8_unchecked(&full[..n]) };
        let mut tok = Token::new_ref(text, 0, TokenType::CompilerDirective);
        format_compiler_directive(&mut tok);
        let (is_dir, ignored) = (true, false);
        let mut first: [u8; 12] = [0; 12];
        {
            let got = tok.get_content().as_bytes();
            assert!(got.len() == n, "OB rewriters/directive_same_length: directive normalisation keeps the length");
            let mut j = 0;
            let mut seen_kept_lower = false;
            let mut changed = false;
            while j < n && j < got.len() {
                first[j] = got[j];
                let same = got[j] == full[j];
                assert!(same || got[j] == upper(full[j]), "OB rewriters/directive_only_case: only ASCII letter case changes, towards upper case");
                assert!(same || (is_dir && !ignored && j >= p), "OB rewriters/directive_scope: only unignored directives change, and only after the directive opener");
                assert!(same || !seen_kept_lower, "OB rewriters/directive_name_span: the upper-cased bytes form one span starting at the directive name");
                if same && full[j] >= b'a' && full[j] <= b'z' && j >= p {
                    seen_kept_lower = true;
                }
                changed = changed || !same;
                j += 1;
            }
            kani::cover!(changed, "a directive name was upper-cased");
            kani::cover!(is_dir && !ignored && !changed, "directive left unchanged");
        }
        format_compiler_directive(&mut tok);
        let got2 = tok.get_content().as_bytes();
        let mut j = 0;
        while j < n && j < got2.len() {
            assert!(got2[j] == first[j], "OB rewriters/directive_fixpoint: normalising a normalised directive changes nothing");
            j += 1;
        }
    }

    #[kani::proof]
    #[kani::unwind(9)]
    fn comment_directive_brace_k3() {
        run_directive::<3>(false);
    }

    #[kani::proof]
    #[kani::unwind(10)]
    fn comment_directive_alt_k3() {
        run_directive::<3>(true);
    }

    #[kani::proof]
    #[kani::unwind(11)]
    fn comment_directive_brace_k5() {
        run_directive::<5>(false);
    }
}
