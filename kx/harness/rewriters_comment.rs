// U9 `rewriters` (comment part) — CommentFormatter::format, format_line_comment, format_compiler_directive.
// One token with symbolic text bytes, ANY TokenType, ignored or not, goes through CommentFormatter::format.
#[cfg(kani)]
mod verif_comment {
    use super::*;
    use crate::lang::verif_util::*;

    fn ws(b: u8) -> bool {
        b == b' ' || b == b'\t' || b == 0x0C || b == b'\n' || b == b'\r'
    }

    // the documented normalisation of a single-line comment, on byte arrays (oracle; N <= 8)
    fn line_comment_oracle(c: &[u8], out: &mut [u8; 16]) -> usize {
        let p = if c.len() > 2 && c[2] == b'/' { 3 } else { 2 };
        let mut n = 0;
        let mut i = 0;
        while i < p {
            out[n] = c[i];
            n += 1;
            i += 1;
        }
        if p < c.len() && !ws(c[p]) {
            out[n] = b' ';
            n += 1;
        }
        while i < c.len() {
            out[n] = c[i];
            n += 1;
            i += 1;
        }
        while n > 0 && ws(out[n - 1]) {
            n -= 1;
        }
        n
    }

    fn run_line_comment<const K: usize>() {
        // "//" + K symbolic bytes; a single-line comment never contains a line break (scanner contract)
        let buf: [u8; K] = kani::any();
        let mut full = [b'/'; 8];
        let mut i = 0;
        while i < K {
            kani::assume(buf[i] < 0x80 && buf[i] != b'\n' && buf[i] != b'\r');
            full[2 + i] = buf[i];
            i += 1;
        }
        // SAFETY: ASCII only
        let text = unsafe { core::str::from_utf8_unchecked(&full[..2 + K]) };
        let tt: TokenType = kani::any();
        let ignored: bool = kani::any();
        let mut toks = [Token::new_ref(text, 0, tt)];
        let mut ft = FormattedTokens::verif_new(&mut toks, vec![FormattingData::verif_new(ignored, 1, 2, 3, 4)]);
        CommentFormatter {}.format(&mut ft, &[]);
        let is_lc = matches!(tt, TokenType::Comment(CommentKind::InlineLine | CommentKind::IndividualLine));
        let mut exp = [0u8; 16];
        let en = if is_lc && !ignored { line_comment_oracle(text.as_bytes(), &mut exp) } else {
            let mut j = 0;
            while j < 2 + K { exp[j] = full[j]; j += 1; }
            2 + K
        };
        kani::cover!(is_lc && !ignored && en == 3 + K, "a space was inserted after the prefix");
        kani::cover!(is_lc && !ignored && en < 2 + K, "trailing blanks were trimmed");
        kani::cover!(!is_lc || ignored, "token that must be left alone");
        {
            let (tok, fmt) = ft.get_token(0).unwrap();
            let got = tok.get_content().as_bytes();
            assert!(got.len() == en, "OB rewriters/line_comment_text: line comment = prefix, one space if text follows directly, text, trailing blanks trimmed; other tokens untouched (length)");
            let mut j = 0;
            while j < en && j < got.len() {
                assert!(got[j] == exp[j], "OB rewriters/line_comment_text: line comment = prefix, one space if text follows directly, text, trailing blanks trimmed; other tokens untouched (bytes)");
                j += 1;
            }
            assert!(fmt.newlines_before == 1 && fmt.indentations_before == 2 && fmt.continuations_before == 3 && fmt.spaces_before == 4,
                "OB rewriters/comment_frame: the comment rule does not write formatting counters");
        }
        // fixpoint
        let first_len = ft.get_token(0).unwrap().0.get_content().len();
        CommentFormatter {}.format(&mut ft, &[]);
        assert!(ft.get_token(0).unwrap().0.get_content().len() == first_len, "OB rewriters/line_comment_fixpoint: normalising a normalised comment changes nothing");
    }

    #[kani::proof]
    #[kani::unwind(9)]
    fn comment_line_k2() {
        run_line_comment::<2>();
    }

    #[kani::proof]
    #[kani::unwind(10)]
    fn comment_line_k3() {
        run_line_comment::<3>();
    }

    #[kani::proof]
    #[kani::unwind(11)]
    fn comment_line_k4() {
        run_line_comment::<4>();
    }

    fn upper(b: u8) -> u8 {
        if b >= b'a' && b <= b'z' { b - 32 } else { b }
    }

    fn run_directive<const K: usize>(alt: bool) {
        let buf: [u8; K] = kani::any();
        let mut full = [b'}'; 12];
        let p = if alt { full[0] = b'('; full[1] = b'*'; full[2] = b'$'; 3 } else { full[0] = b'{'; full[1] = b'$'; 2 };
        let mut i = 0;
        while i < K {
            kani::assume(buf[i] < 0x80);
            full[p + i] = buf[i];
            i += 1;
        }
        let n = p + K + 1;
        // SAFETY: ASCII only
        let text = unsafe { core::str::from_utf8_unchecked(&full[..n]) };
        let tt: TokenType = kani::any();
        let ignored: bool = kani::any();
        let mut toks = [Token::new_ref(text, 0, tt)];
        let mut ft = FormattedTokens::verif_new(&mut toks, vec![FormattingData::verif_new(ignored, 0, 0, 0, 1)]);
        CommentFormatter {}.format(&mut ft, &[]);
        let is_dir = matches!(tt, TokenType::CompilerDirective | TokenType::ConditionalDirective(_));
        let mut first: [u8; 12] = [0; 12];
        {
            let got = ft.get_token(0).unwrap().0.get_content().as_bytes();
            assert!(got.len() == n, "OB rewriters/directive_same_length: directive normalisation keeps the length");
            let mut j = 0;
            let mut seen_kept_lower = false;
            let mut changed = false;
            while j < n && j < got.len() {
                first[j] = got[j];
                let same = got[j] == full[j];
                assert!(same || got[j] == upper(full[j]), "OB rewriters/directive_only_case: only ASCII letter case changes, towards upper case");
                assert!(same || (is_dir && !ignored && j >= p), "OB rewriters/directive_scope: only unignored directives change, and only after the `{$` / `(*$` prefix");
                assert!(same || !seen_kept_lower, "OB rewriters/directive_name_span: the upper-cased bytes form one span starting at the directive name");
                if same && full[j] >= b'a' && full[j] <= b'z' && j >= p {
                    seen_kept_lower = true;
                }
                changed = changed || !same;
                j += 1;
            }
            kani::cover!(changed, "a directive name was upper-cased");
            kani::cover!(is_dir && !ignored && !changed, "directive left unchanged");
        }
        CommentFormatter {}.format(&mut ft, &[]);
        let got2 = ft.get_token(0).unwrap().0.get_content().as_bytes();
        let mut j = 0;
        while j < n && j < got2.len() {
            assert!(got2[j] == first[j], "OB rewriters/directive_fixpoint: normalising a normalised directive changes nothing");
            j += 1;
        }
    }

    #[kani::proof]
    #[kani::unwind(9)]
    fn comment_directive_brace_k3() {
        run_directive::<3>(false);
    }

    #[kani::proof]
    #[kani::unwind(10)]
    fn comment_directive_alt_k3() {
        run_directive::<3>(true);
    }

    #[kani::proof]
    #[kani::unwind(11)]
    fn comment_directive_brace_k5() {
        run_directive::<5>(false);
    }
}
