// U7 `settings` — user-facing configuration -> core settings, for EVERY value of the settings.
#[cfg(kani)]
mod verif_settings {
    use super::*;

    fn any_config() -> FormattingConfig {
        let le: u8 = kani::any();
        kani::assume(le <= 2);
        let bs: bool = kani::any();
        FormattingConfig {
            wrap_column: kani::any(),
            begin_style: if bs { BeginStyle::Always_Wrap } else { BeginStyle::Auto },
            format_multiline_strings: kani::any(),
            encoding: InternalEncoding::Native,
            use_tabs: kani::any(),
            tab_width: kani::any(),
            continuation_indents: kani::any(),
            line_ending: match le { 0 => LineEnding::Crlf, 1 => LineEnding::Lf, _ => LineEnding::Native },
        }
    }

    // C11 / C05: wrap_column reaches the wrapper only as max_line_length; begin_style maps to break_before_begin
    #[kani::proof]
    #[kani::unwind(4)]
    fn settings_olf() {
        let c = any_config();
        let s: OptimisingLineFormatterSettings = (&c).into();
        kani::cover!(matches!(c.begin_style, BeginStyle::Always_Wrap), "always_wrap");
        assert!(s.max_line_length == c.wrap_column, "OB settings/wrap_column_is_max_line_length: wrap_column is passed unchanged as the wrapper's limit");
        assert!(s.break_before_begin == matches!(c.begin_style, BeginStyle::Always_Wrap), "OB settings/begin_style_mapping: begin_style=always_wrap <=> break_before_begin");
        assert!(s.format_multiline_strings == c.format_multiline_strings, "OB settings/format_multiline_strings_copied: the flag is copied");
        assert!(s.iteration_max > 0, "OB settings/iteration_limit_positive: the search has a positive iteration limit");
    }

    // C10 / C09: widths of the indentation and continuation strings, and the newline string.
    // The strings are observed through the public getters of the real ReconstructionSettings.
    fn run_recon(use_tabs: bool, tw: u8, ci: u8) {
        let le: u8 = kani::any();
        kani::assume(le <= 2);
        let c = FormattingConfig {
            wrap_column: 120,
            begin_style: BeginStyle::Auto,
            format_multiline_strings: true,
            encoding: InternalEncoding::Native,
            use_tabs,
            tab_width: tw,
            continuation_indents: ci,
            line_ending: match le { 0 => LineEnding::Crlf, 1 => LineEnding::Lf, _ => LineEnding::Native },
        };
        let r: ReconstructionSettings = (&c).into();
        let unit = if use_tabs { b'\t' } else { b' ' };
        let iw: usize = if use_tabs { 1 } else { tw as usize };
        // from the property (C08: every indentation is a whole number of units; C10): no cap
        let cw: usize = ci as usize * if use_tabs { 1 } else { tw as usize };
        kani::cover!(le == 0, "crlf");
        assert!(r.get_indentation_str().len() == iw, "OB settings/indent_width: one indentation = one tab, or tab_width spaces");
        assert!(r.get_continuation_str().len() == cw, "OB settings/continuation_width: one continuation = continuation_indents indentation units, for every setting");
        let ib = r.get_indentation_str().as_bytes();
        let mut i = 0;
        while i < ib.len() {
            assert!(ib[i] == unit, "OB settings/indent_unit: indentation consists of tabs iff use_tabs, else of spaces");
            i += 1;
        }
        let cb = r.get_continuation_str().as_bytes();
        i = 0;
        while i < cb.len() {
            assert!(cb[i] == unit, "OB settings/indent_unit: indentation consists of tabs iff use_tabs, else of spaces");
            i += 1;
        }
        let nl = r.get_newline_str().as_bytes();
        if le == 0 {
            assert!(nl.len() == 2 && nl[0] == b'\r' && nl[1] == b'\n', "OB settings/newline_string: crlf => CR LF, lf and (on this platform) native => LF");
        } else {
            assert!(nl.len() == 1 && nl[0] == b'\n', "OB settings/newline_string: crlf => CR LF, lf and (on this platform) native => LF");
        }
    }

    #[kani::proof]
    #[kani::unwind(8)]
    fn settings_recon_spaces_2_2() {
        run_recon(false, 2, 2);
    }
    #[kani::proof]
    #[kani::unwind(8)]
    fn settings_recon_tabs_4_3() {
        run_recon(true, 4, 3);
    }
    #[kani::proof]
    #[kani::unwind(8)]
    fn settings_recon_spaces_0_5() {
        run_recon(false, 0, 5);
    }
    #[kani::proof]
    #[kani::unwind(8)]
    fn settings_recon_spaces_3_1() {
        run_recon(false, 3, 1);
    }
    #[kani::proof]
    #[kani::unwind(8)]
    fn settings_recon_tabs_0_0() {
        run_recon(true, 0, 0);
    }

    // arithmetic of the conversion for every (use_tabs, tab_width, continuation_indents): only the
    // lengths are observed (str::repeat on a symbolic count is expensive; contents are covered by the
    // concrete cases above and, for every width, by the Verus proof of ReconstructionSettings::new)
}
