// U16 `orchestr` (command_line part): mode defaults.
#[cfg(kani)]
mod verif_cl {
    use super::*;
    use crate::formatting_orchestrator::FormatterConfiguration;

    struct VC {}
    impl<'de> ::serde::Deserialize<'de> for VC {
        fn deserialize<D: ::serde::Deserializer<'de>>(_d: D) -> Result<Self, D::Error> {
            Ok(VC {})
        }
    }
    impl Configuration for VC {
        fn docs() -> impl IntoIterator<Item = ConfigItem> {
            Vec::new()
        }
    }

    #[kani::proof]
    #[kani::unwind(4)]
    fn cl_mode_defaults() {
        let has_path: bool = kani::any();
        let has_files_from: bool = kani::any();
        let m: u8 = kani::any();
        kani::assume(m <= 3);
        let mode = match m {
            0 => None,
            1 => Some(FormatMode::Files),
            2 => Some(FormatMode::Stdout),
            _ => Some(FormatMode::Check),
        };
        let cfg: PasFmtConfiguration<VC> = PasFmtConfiguration {
            marker: std::marker::PhantomData,
            paths: if has_path { vec![String::new()] } else { Vec::new() },
            files_from: if has_files_from { Some(PathBuf::new()) } else { None },
            config_file: None,
            overrides: Vec::new(),
            mode,
            cursor: Vec::new(),
            verbose: 0,
            log_level: LevelFilter::Warn,
        };
        let stdin = !has_path && !has_files_from;
        kani::cover!(stdin && m == 0, "stdin with default mode");
        assert!(cfg.is_stdin() == stdin, "OB orchestr/is_stdin: input is stdin exactly when no path and no --files-from is given");
        let e = match mode {
            Some(x) => x,
            None => if stdin { FormatMode::Stdout } else { FormatMode::Files },
        };
        assert!(cfg.mode() == e, "OB orchestr/mode_default: an explicit mode wins; otherwise stdin => stdout, paths => files");
    }
}
