// Constructors for types whose fields are private to this module and whose only
// other constructor is #[cfg(test)].  Used by harness modules in other files.
#[cfg(kani)]
impl<'a> FormattedTokens<'a> {
    pub(crate) fn verif_new(tokens: &'a mut [Token<'a>], fmt: Vec<FormattingData>) -> Self {
        Self { tokens, fmt }
    }
}
#[cfg(kani)]
impl FormattingData {
    pub(crate) fn verif_new(ignored: bool, nl: u16, ind: u16, cont: u16, sp: u16) -> Self {
        FormattingData {
            ignored,
            newlines_before: nl,
            indentations_before: ind,
            continuations_before: cont,
            spaces_before: sp,
        }
    }
}
#[cfg(kani)]
pub(crate) mod verif_util {
    /// a string of N bytes, every byte symbolic ASCII
    pub(crate) fn ascii<const N: usize>(buf: &[u8; N]) -> &str {
        let mut i = 0;
        while i < N {
            kani::assume(buf[i] < 0x80);
            i += 1;
        }
        // SAFETY: all bytes are ASCII
        unsafe { core::str::from_utf8_unchecked(buf) }
    }
    pub(crate) fn blank(b: u8) -> bool {
        b == b' ' || b == b'\t' || b == b'\n' || b == b'\r'
    }
}
#[cfg(verif_nx)]
impl FormattingData {
    pub(crate) fn verif_nx_new(ignored: bool, nl: u16, ind: u16, cont: u16, sp: u16) -> Self {
        FormattingData {
            ignored,
            newlines_before: nl,
            indentations_before: ind,
            continuations_before: cont,
            spaces_before: sp,
        }
    }
}
#[cfg(verif_nx)]
impl<'a> FormattedTokens<'a> {
    pub(crate) fn verif_nx_new(tokens: &'a mut [Token<'a>], fmt: Vec<FormattingData>) -> Self {
        Self { tokens, fmt }
    }
}
