// U16 `orchestr` (file_formatter part): UTF-16 encoders, encoder dispatch, write, check_formatting.
#[cfg(kani)]
mod verif_ff {
    use super::*;

    fn utf16_units(c: char) -> (u16, Option<u16>) {
        let v = c as u32;
        if v < 0x10000 {
            (v as u16, None)
        } else {
            let w = v - 0x10000;
            (0xD800 + (w >> 10) as u16, Some(0xDC00 + (w & 0x3FF) as u16))
        }
    }

    // complete: every Unicode scalar value
    #[kani::proof]
    #[kani::unwind(6)]
    fn ff_utf16_every_char() {
        let c: char = kani::any();
        let le: bool = kani::any();
        let mut b = [0u8; 4];
        let s: &str = c.encode_utf8(&mut b);
        let out = if le { FileFormatter::encode_utf16le(s) } else { FileFormatter::encode_utf16be(s) };
        let (u0, u1) = utf16_units(c);
        kani::cover!(u1.is_some(), "surrogate pair");
        kani::cover!(u1.is_none() && (c as u32) > 0x7ff, "three-byte UTF-8 character");
        let put = |u: u16| if le { [u as u8, (u >> 8) as u8] } else { [(u >> 8) as u8, u as u8] };
        assert!(out.len() == if u1.is_some() { 4 } else { 2 }, "OB orchestr/utf16_char_units: one code unit for the BMP, a surrogate pair above it");
        let a = put(u0);
        assert!(out[0] == a[0] && out[1] == a[1], "OB orchestr/utf16_char_bytes: code units are written in the byte order of the encoding");
        if let Some(u1) = u1 {
            let b2 = put(u1);
            assert!(out[2] == b2[0] && out[3] == b2[1], "OB orchestr/utf16_char_bytes: code units are written in the byte order of the encoding");
        }
    }

    // two ASCII characters as a String (no unsafe in this crate, and from_utf8's validation loop is costly in CBMC)

    // error-message formatting is irrelevant to the contract and dominates CBMC's cost
    fn fmt_stub(_args: core::fmt::Arguments<'_>) -> String {
        String::new()
    }

    // the dependency's encoder must not be reached for UTF-16 (it cannot encode it); replaced by a stub that reports
    // "unmappable", so a wrong dispatch shows up as Err
    fn enc_stub<'a>(e: &'static Encoding, _s: &'a str) -> (Cow<'a, [u8]>, &'static Encoding, bool) {
        (Cow::Borrowed(&[]), e, true)
    }

    // order of code units, and the dispatch of `encode`
    #[kani::proof]
    #[kani::unwind(6)]
    #[kani::stub(alloc::fmt::format, fmt_stub)]
    #[kani::stub(encoding_rs::Encoding::encode, enc_stub)]
    fn ff_encode_dispatch_le() {
        encode_dispatch(0);
    }

    #[kani::proof]
    #[kani::unwind(6)]
    #[kani::stub(alloc::fmt::format, fmt_stub)]
    #[kani::stub(encoding_rs::Encoding::encode, enc_stub)]
    fn ff_encode_dispatch_be() {
        encode_dispatch(1);
    }

    fn encode_dispatch(which: u8) {
        let b: u8 = kani::any();
        kani::assume(b < 0x80);
        let mut sbuf = [0u8; 4];
        let s: &str = (b as char).encode_utf8(&mut sbuf);
        let enc: &'static Encoding = if which == 0 { encoding_rs::UTF_16LE } else { encoding_rs::UTF_16BE };
        let r = FileFormatter::encode(enc, s);
        kani::cover!(b == b'a', "a letter");
        match r {
            Err(_) => assert!(false, "OB orchestr/encode_utf16_supported: UTF-16LE/BE are encoded by the hand-written encoders, never rejected"),
            Ok(out) => {
                let e: [u8; 2] = if which == 0 { [b, 0] } else { [0, b] };
                assert!(out.len() == 2 && out[0] == e[0] && out[1] == e[1], "OB orchestr/encode_utf16_dispatch: UTF-16LE uses the little-endian encoder, UTF-16BE the big-endian one");
            }
        }
    }

    // write(): bytes appended = BOM ++ encoded text; the returned length is exactly that
    #[kani::proof]
    #[kani::unwind(6)]
    #[kani::stub(alloc::fmt::format, fmt_stub)]
    #[kani::stub(encoding_rs::Encoding::encode, enc_stub)]
    fn ff_write_len() {
        let b: u8 = kani::any();
        kani::assume(b < 0x80);
        let mut sbuf = [0u8; 4];
        let s: &str = (b as char).encode_utf8(&mut sbuf);
        let with_bom: bool = kani::any();
        let bom: [u8; 2] = [0xFF, 0xFE];
        let mut w: Vec<u8> = Vec::with_capacity(8);
        w.push(7);
        let r = FileFormatter::write(&mut w, encoding_rs::UTF_16LE, if with_bom { Some(&bom[..]) } else { None }, s);
        kani::cover!(with_bom, "with BOM");
        match r {
            Err(_) => assert!(false, "OB orchestr/write_ok: writing into a Vec cannot fail"),
            Ok(n) => {
                let off = if with_bom { 2 } else { 0 };
                assert!(n as usize == 2 + off, "OB orchestr/write_len_is_bytes_written: the returned length (given to set_len) is the number of bytes written");
                assert!(w.len() == 1 + 2 + off && w[0] == 7, "OB orchestr/write_appends: write appends BOM ++ encoded text and nothing else");
                if with_bom {
                    assert!(w[1] == 0xFF && w[2] == 0xFE, "OB orchestr/write_bom_first: the preserved BOM comes first");
                }
                assert!(w[1 + off] == b && w[2 + off] == 0, "OB orchestr/write_appends: write appends BOM ++ encoded text and nothing else");
            }
        }
    }

    // BOM sniffing of the dependency, on every 4-byte prefix
    #[kani::proof]
    #[kani::unwind(6)]
    fn ff_bom_sniffing() {
        let p: [u8; 4] = kani::any();
        let r = Encoding::for_bom(&p);
        let utf8 = p[0] == 0xEF && p[1] == 0xBB && p[2] == 0xBF;
        let le = p[0] == 0xFF && p[1] == 0xFE;
        let be = p[0] == 0xFE && p[1] == 0xFF;
        kani::cover!(utf8, "UTF-8 BOM");
        kani::cover!(be, "UTF-16BE BOM");
        match r {
            None => assert!(!utf8 && !le && !be, "OB orchestr/bom_detected: EF BB BF / FF FE / FE FF are recognised"),
            Some((e, n)) => {
                assert!((utf8 && e == encoding_rs::UTF_8 && n == 3) || (le && e == encoding_rs::UTF_16LE && n == 2) || (be && e == encoding_rs::UTF_16BE && n == 2),
                    "OB orchestr/bom_decides_encoding: a byte-order mark selects exactly its encoding and length");
            }
        }
    }
}
