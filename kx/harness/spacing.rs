// U12 `spacing` — TokenSpacing::format on 3 tokens of ARBITRARY TokenType, arbitrary gaps and arbitrary u16 counters.
//  Inputs respect the invariant of the pipeline (FormattingData::from): a token's counters come from its leading
//  whitespace, so "no whitespace" <=> newlines_before == 0 && spaces_before == 0.
//  S1  spaces_before' <= 1 for every token whose predecessor is not an inline single-line comment
//      (a token after such a comment starts a line; its count is not used); token 0 gets 0
//  S2  (Identifier | Keyword) directly followed by (Identifier | Keyword | NumberLiteral): exactly 1
//  S3  an inline single-line comment that is not the first token gets exactly 1
//  S4  (C06) the result is a function of the token kinds and of WHETHER each gap is empty: not of the amount of
//      horizontal whitespace, not of the indentation, not of whether the gap is blanks or a line break
//  S5  applying the rule to its own result changes nothing
//  frame: only spaces_before is written
#[cfg(kani)]
mod verif_spacing {
    use super::*;

    fn apply(tt: [TokenType; 3], sp: [u16; 3], other: [(u16, u16, u16); 3]) -> [(u16, u16, u16, u16); 3] {
        // leading whitespace present exactly when the counters say so (the invariant FormattingData::from establishes)
        let gap = |i: usize| other[i].0 > 0 || sp[i] > 0;
        let tok = |text: &'static str, gapped: &'static str, i: usize| if gap(i) { Token::new_ref(gapped, 1, tt[i]) } else { Token::new_ref(text, 0, tt[i]) };
        let mut toks = [tok("a", " a", 0), tok("b", " b", 1), tok("c", " c", 2)];
        let fmt = vec![
            FormattingData::verif_new(false, other[0].0, other[0].1, other[0].2, sp[0]),
            FormattingData::verif_new(false, other[1].0, other[1].1, other[1].2, sp[1]),
            FormattingData::verif_new(false, other[2].0, other[2].1, other[2].2, sp[2]),
        ];
        let mut ft = FormattedTokens::verif_new(&mut toks, fmt);
        TokenSpacing {}.format(&mut ft, &[]);
        let g = |i: usize| {
            let d = ft.get_formatting_data(i).unwrap();
            (d.newlines_before, d.indentations_before, d.continuations_before, d.spaces_before)
        };
        [g(0), g(1), g(2)]
    }

    fn word(t: TokenType) -> bool {
        matches!(t, TokenType::Identifier | TokenType::Keyword(_))
    }

    #[kani::proof]
    #[kani::unwind(5)]
    fn spacing_3tokens() {
        let tt: [TokenType; 3] = kani::any();
        let sp: [u16; 3] = kani::any();
        let other: [(u16, u16, u16); 3] = kani::any();
        let r = apply(tt, sp, other);
        let inline_line = |t: TokenType| matches!(t, TokenType::Comment(CommentKind::InlineLine));
        kani::cover!(word(tt[0]) && word(tt[1]), "two adjacent words");
        kani::cover!(inline_line(tt[1]), "inline line comment in the middle");
        kani::cover!(sp[1] > 5 && r[1].3 == 1, "many spaces reduced to one");
        assert!(r[0].3 == 0, "OB spacing/S1_first_token_zero: the first token of the file gets no space");
        assert!(inline_line(tt[0]) || r[1].3 <= 1, "OB spacing/S1_at_most_one_space: at most one space between tokens on a line");
        assert!(inline_line(tt[1]) || r[2].3 <= 1, "OB spacing/S1_at_most_one_space: at most one space between tokens on a line");
        if word(tt[0]) && (word(tt[1]) || matches!(tt[1], TokenType::NumberLiteral(_))) {
            assert!(r[1].3 == 1, "OB spacing/S2_words_separated: word followed by word/number keeps exactly one space");
        }
        if word(tt[1]) && (word(tt[2]) || matches!(tt[2], TokenType::NumberLiteral(_))) {
            assert!(r[2].3 == 1, "OB spacing/S2_words_separated: word followed by word/number keeps exactly one space");
        }
        if inline_line(tt[1]) {
            assert!(r[1].3 == 1, "OB spacing/S3_inline_comment_one_space: inline line comment is preceded by exactly one space");
        }
        if inline_line(tt[2]) {
            assert!(r[2].3 == 1, "OB spacing/S3_inline_comment_one_space: inline line comment is preceded by exactly one space");
        }
        let mut i = 0;
        while i < 3 {
            assert!(r[i].0 == other[i].0 && r[i].1 == other[i].1 && r[i].2 == other[i].2,
                "OB spacing/frame_only_spaces: the spacing rule writes nothing but spaces_before");
            i += 1;
        }
    }

    #[kani::proof]
    #[kani::unwind(5)]
    fn spacing_layout_independent() {
        let tt: [TokenType; 3] = kani::any();
        let sp1: [u16; 3] = kani::any();
        let sp2: [u16; 3] = kani::any();
        let o1: [(u16, u16, u16); 3] = kani::any();
        let o2: [(u16, u16, u16); 3] = kani::any();
        // two layouts of the same tokens with the same gaps: only the kind / amount of whitespace in each gap differs
        let comment = |t: TokenType| matches!(t, TokenType::Comment(_));
        let mut i = 0;
        while i < 3 {
            kani::assume((o1[i].0 > 0 || sp1[i] > 0) == (o2[i].0 > 0 || sp2[i] > 0));
            // the property keeps every gap that touches a comment as it is
            if comment(tt[i]) || (i > 0 && comment(tt[i - 1])) {
                kani::assume(o1[i].0 == o2[i].0 && sp1[i] == sp2[i]);
            }
            i += 1;
        }
        let r1 = apply(tt, sp1, o1);
        let r2 = apply(tt, sp2, o2);
        kani::cover!(o1[1].0 != o2[1].0, "different line-break counts");
        kani::cover!(o1[2].0 > 0 && sp1[2] == 0 && o2[2].0 == 0 && sp2[2] > 0, "a line break at column 0 in one layout, blanks in the other");
        kani::cover!(matches!(tt[1], TokenType::TextLiteral(_)) && r1[2].3 == 1, "a literal keeps the gap after it");
        // the blanks before the end-of-file token are not this rule's business: EofNewline overwrites them (unit eofnl)
        let same = |i: usize| matches!(tt[i], TokenType::Eof) || r1[i].3 == r2[i].3;
        assert!(same(0) && same(1) && same(2),
            "OB spacing/S4_function_of_kinds_and_gaps: spacing depends on the token kinds and on whether each gap is empty, not on the amount of blanks, the indentation, or blanks versus a line break");
    }

    #[kani::proof]
    #[kani::unwind(5)]
    fn spacing_idempotent() {
        let tt: [TokenType; 3] = kani::any();
        let sp: [u16; 3] = kani::any();
        let r1 = apply(tt, sp, [(0, 0, 0); 3]);
        // the second run sees the first run's output as text: each gap is exactly the blanks the first run left
        let r2 = apply(tt, [r1[0].3, r1[1].3, r1[2].3], [(0, 0, 0); 3]);
        kani::cover!(sp[1] != r1[1].3, "first application changed something");
        assert!(r1[0].3 == r2[0].3 && r1[1].3 == r2[1].3 && r1[2].3 == r2[2].3,
            "OB spacing/S5_idempotent: the spacing rule is a fixpoint on its own output");
    }
}
