// U11 `ignore` — recognition of `pasfmt on|off` comments and the marking of verbatim regions.
//
// parse_toggle(content) is compared with an independent byte-level reading of the documented rule:
//   opener `//`, `{` or `(*`;  ASCII blanks*;  `pasfmt` in any letter case;  ASCII blank+;
//   the word that follows - it ends where an identifier would end: before the first byte that is not a letter, digit,
//   `_` or part of a non-ASCII character - is exactly `on` / `off` in any letter case (C07: "only for the exact words").
// FormattingToggler::ignore_tokens marks exactly: every token from an `off` comment up to and
// including the next `on` comment (or the end), and nothing else.
#[cfg(kani)]
mod verif_toggle {
    use super::*;

    fn blank(b: u8) -> bool {
        b == b' ' || b == b'\t' || b == b'\n' || b == 0x0C || b == b'\r'
    }
    fn alnum(b: u8) -> bool {
        (b >= b'0' && b <= b'9') || (b >= b'a' && b <= b'z') || (b >= b'A' && b <= b'Z') || b == b'_' || b >= 0x80
    }
    fn low(b: u8) -> u8 {
        if b >= b'A' && b <= b'Z' { b + 32 } else { b }
    }

    // 0 = none, 1 = on, 2 = off
    fn oracle(c: &[u8], start: usize) -> u8 {
        let mut i = start;
        while i < c.len() && blank(c[i]) {
            i += 1;
        }
        let name = b"pasfmt";
        let mut k = 0;
        while k < 6 {
            if i + k >= c.len() || low(c[i + k]) != name[k] {
                return 0;
            }
            k += 1;
        }
        i += 6;
        if i >= c.len() || !blank(c[i]) {
            return 0;
        }
        while i < c.len() && blank(c[i]) {
            i += 1;
        }
        let w = i;
        while i < c.len() && alnum(c[i]) {
            i += 1;
        }
        if i - w == 2 && low(c[w]) == b'o' && low(c[w + 1]) == b'n' {
            1
        } else if i - w == 3 && low(c[w]) == b'o' && low(c[w + 1]) == b'f' && low(c[w + 2]) == b'f' {
            2
        } else {
            0
        }
    }

    fn run_parse<const P: usize, const K: usize>(opener: [u8; P]) {
        let tail: [u8; K] = kani::any();
        let mut full = [0u8; 16];
        let mut i = 0;
        while i < P {
            full[i] = opener[i];
            i += 1;
        }
        i = 0;
        while i < K {
            kani::assume(tail[i] < 0x80);
            full[P + i] = tail[i];
            i += 1;
        }
        // SAFETY: ASCII only
        let text = unsafe { core::str::from_utf8_unchecked(&full[..P + K]) };
        let got = match parse_toggle(text) {
            None => 0u8,
            Some(FormattingToggle::On) => 1,
            Some(FormattingToggle::Off) => 2,
        };
        let exp = oracle(&full[..P + K], P);
        kani::cover!(exp == 1, "an `on` toggle is reachable");
        kani::cover!(exp == 2, "an `off` toggle is reachable");
        assert!(got == exp, "OB ignore/toggle_recognition: a comment toggles formatting exactly when it reads `pasfmt` + blank + the word on/off (any case)");
    }

    #[kani::proof]
    #[kani::unwind(13)]
    fn toggle_parse_line_comment() {
        run_parse::<2, 11>([b'/', b'/']);
    }

    #[kani::proof]
    #[kani::unwind(13)]
    fn toggle_parse_brace() {
        run_parse::<1, 11>([b'{']);
    }

    #[kani::proof]
    #[kani::unwind(13)]
    fn toggle_parse_paren_star() {
        run_parse::<2, 11>([b'(', b'*']);
    }

    #[kani::proof]
    #[kani::unwind(6)]
    fn toggle_parse_other_opener() {
        // any other first two bytes: never a toggle
        let o: [u8; 2] = kani::any();
        kani::assume(o[0] < 0x80 && o[1] < 0x80);
        kani::assume(!(o[0] == b'/' && o[1] == b'/') && !(o[0] == b'(' && o[1] == b'*') && o[0] != b'{');
        let full = [o[0], o[1], b'p', b'a', b's', b'f', b'm', b't', b' ', b'o', b'n'];
        // SAFETY: ASCII only
        let text = unsafe { core::str::from_utf8_unchecked(&full) };
        kani::cover!(o[0] == b'/', "a single slash");
        assert!(parse_toggle(text).is_none(), "OB ignore/toggle_only_in_comments: only line-comment, brace and paren-star openers start a toggle comment");
    }

    // ---- region marking, with the marker's hash set replaced by a bit array (its contract is checked in unit `marker`)
    static mut MARKS: [bool; 4] = [false; 4];
    fn mark_model(_m: &mut TokenMarker, element: usize) -> bool {
        // SAFETY: single-threaded harness
        unsafe {
            let was = MARKS[element];
            MARKS[element] = true;
            !was
        }
    }

    #[kani::proof]
    #[kani::unwind(14)]
    #[kani::stub(crate::formatter::TokenMarker::mark, mark_model)]
    fn toggle_regions_3tokens() {
        // each token: 0 = `{pasfmt off}`, 1 = `{pasfmt on}`, 2 = other comment, 3 = code, 4 = the end-of-file token
        // (a region that is still open at the end of the text includes the end-of-file token: its leading blanks are the
        // file's trailing blanks, which C07 keeps byte for byte)
        let k: [u8; 3] = kani::any();
        kani::assume(k[0] <= 4 && k[1] <= 4 && k[2] <= 4);
        let mk = |c: u8| match c {
            0 => Token::new_ref("{pasfmt off}", 0, TokenType::Comment(CommentKind::InlineBlock)),
            1 => Token::new_ref("{pasfmt on}", 0, TokenType::Comment(CommentKind::InlineBlock)),
            2 => Token::new_ref("{pasfmt of}", 0, TokenType::Comment(CommentKind::InlineBlock)),
            4 => Token::new_ref(" \n", 2, TokenType::Eof),
            _ => Token::new_ref("pasfmt", 0, TokenType::Identifier),
        };
        let toks = [mk(k[0]), mk(k[1]), mk(k[2])];
        let mut marker = TokenMarker::default();
        FormattingToggler {}.ignore_tokens((&toks, &[]), &mut marker);
        let mut off = false;
        let mut i = 0;
        kani::cover!(k[0] == 0 && k[1] == 3 && k[2] == 1, "off, code, on");
        kani::cover!(k[0] == 3 && k[1] == 0 && k[2] == 3, "code, off, code");
        kani::cover!(k[0] == 0 && k[1] == 3 && k[2] == 4, "off, code, end of file");
        while i < 3 {
            let mut expect = off;
            if k[i] == 0 {
                off = true;
                expect = true;
            } else if k[i] == 1 {
                off = false;
                expect = true;
            }
            // SAFETY: single-threaded harness
            let got = unsafe { MARKS[i] };
            assert!(got == expect, "OB ignore/region_marking: marked = from an `off` comment through the next `on` comment (or the end), toggle comments included, nothing else");
            i += 1;
        }
    }
}
