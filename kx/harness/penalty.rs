// U14 `penalty` — get_decision_penalty as a function of (line length, max_line_length), for ALL u32 pairs.
// Stated as relations, not with the current constants, so that retuning a weight is not an alarm:
//   Continue, length <= limit            => 0
//   Continue, length >  limit            => larger than any Break penalty, strictly increasing in length,
//                                           non-increasing in the limit
//   Break                                => positive, independent of length and limit
// Hence the penalty of a decision is independent of the limit whenever the line fits (C11, necessary condition).
#[cfg(kani)]
mod verif_penalty {
    use super::*;
    use crate::rules::optimising_line_formatter::{InternalOptimisingLineFormatter, LineChildren, OptimisingLineFormatterSettings, PenaltyDecision, TokenLength};
    use fxhash::FxHashMap;

    fn penalty(raw: RawDecision, len: u32, limit: u32, prev_colon: bool) -> u64 {
        let tt0 = if prev_colon { TokenType::Op(OperatorKind::Colon) } else { TokenType::Identifier };
        let mut toks = [Token::new_ref("a", 0, tt0), Token::new_ref(" b", 1, TokenType::Identifier)];
        let mut ft = FormattedTokens::verif_new(&mut toks, vec![FormattingData::verif_new(false, 0, 0, 0, 0), FormattingData::verif_new(false, 0, 0, 0, 1)]);
        let settings = OptimisingLineFormatterSettings { max_line_length: limit, iteration_max: 100, break_before_begin: false, format_multiline_strings: true };
        let rs = ReconstructionSettings::new(LineEnding::Lf, TabKind::Soft, 2, 2);
        let children: FxHashMap<LineParent, LineChildren> = FxHashMap::default();
        let olf = InternalOptimisingLineFormatter {
            settings: &settings,
            recon_settings: &rs,
            formatted_tokens: &mut ft,
            lines: &[],
            line_children: &children,
            token_types: vec![tt0, TokenType::Identifier],
            token_lengths: vec![TokenLength { spaces_before: 0, content: 1 }, TokenLength { spaces_before: 1, content: 1 }],
            child_line_cache: Default::default(),
        };
        let line = LogicalLine::new(None, 0, vec![0, 1], LogicalLineType::Unknown);
        let types = [tt0, TokenType::Identifier];
        let lfc = LineFormattingContexts { context_count: 0, update_indices: Vec::new(), line: &line, token_types: &types };
        let stack = SpecificContextStack { stack: None, formatting_contexts: &lfc };
        olf.get_decision_penalty(PenaltyDecision { raw_decision: raw, line_length: len, line_index: 1, line: &line, stack: &stack })
    }

    #[kani::proof]
    #[kani::unwind(8)]
    fn penalty_continue_fits_or_dominates() {
        let len: u32 = kani::any();
        let limit: u32 = kani::any();
        let colon: bool = kani::any();
        let p = penalty(RawDecision::Continue, len, limit, colon);
        let b = penalty(RawDecision::Break, len, limit, colon);
        kani::cover!(len > limit, "over the limit");
        kani::cover!(len == limit, "exactly at the limit");
        if len <= limit {
            assert!(p == 0, "OB penalty/fits_costs_nothing: a token that ends within the limit costs nothing");
        } else {
            assert!(p > b && p > 1024, "OB penalty/overflow_dominates_breaks: a token beyond the limit costs more than any line break");
        }
        assert!(b > 0 && b < (1u64 << 20), "OB penalty/break_cost_small_positive: a line break has a small positive cost");
    }

    #[kani::proof]
    #[kani::unwind(8)]
    fn penalty_monotone() {
        let len: u32 = kani::any();
        let limit: u32 = kani::any();
        kani::assume(len < u32::MAX && limit < u32::MAX);
        let p = penalty(RawDecision::Continue, len, limit, false);
        let p_longer = penalty(RawDecision::Continue, len + 1, limit, false);
        let p_wider = penalty(RawDecision::Continue, len, limit + 1, false);
        kani::cover!(len > limit, "over the limit");
        assert!(p_longer >= p, "OB penalty/monotone_in_length: a longer line never costs less");
        if len >= limit {
            assert!(p_longer > p, "OB penalty/strict_beyond_limit: beyond the limit every extra column costs more");
        }
        assert!(p_wider <= p, "OB penalty/antitone_in_limit: a wider limit never costs more");
    }

    #[kani::proof]
    #[kani::unwind(8)]
    fn penalty_break_independent_of_limit() {
        let l1: u32 = kani::any();
        let l2: u32 = kani::any();
        let w1: u32 = kani::any();
        let w2: u32 = kani::any();
        let colon: bool = kani::any();
        kani::cover!(colon, "break after a colon");
        assert!(penalty(RawDecision::Break, l1, w1, colon) == penalty(RawDecision::Break, l2, w2, colon),
            "OB penalty/break_independent_of_limit: the cost of a break depends neither on the line length nor on the limit");
    }
}
