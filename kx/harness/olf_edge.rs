// U13 `wrapperedge` — the parts of the optimising line formatter that are within reach:
// the hard invariants table (get_formatting_invariant) and the post-pass of format().
#[cfg(kani)]
mod verif_olf {
    use super::*;

    fn line_comment(t: TokenType) -> bool {
        matches!(t, TT::Comment(CommentKind::InlineLine | CommentKind::IndividualLine))
    }

    // C02: invariants for the decision before token 1 (prev = token 0) and before token 0 (start of file)
    #[kani::proof]
    #[kani::unwind(4)]
    fn olf_invariants_2tokens() {
        let tt: [TokenType; 2] = kani::any();
        let mut toks = [Token::new_ref("a", 0, tt[0]), Token::new_ref(" b", 1, tt[1])];
        let mut ft = FormattedTokens::verif_new(&mut toks, vec![FormattingData::verif_new(false, 0, 0, 0, 0), FormattingData::verif_new(false, 0, 0, 0, 1)]);
        let settings = OptimisingLineFormatterSettings { max_line_length: 120, iteration_max: 100, break_before_begin: false, format_multiline_strings: true };
        let rs = ReconstructionSettings::new(LineEnding::Lf, TabKind::Soft, 2, 2);
        let children: FxHashMap<LineParent, LineChildren> = FxHashMap::default();
        let olf = InternalOptimisingLineFormatter {
            settings: &settings,
            recon_settings: &rs,
            formatted_tokens: &mut ft,
            lines: &[],
            line_children: &children,
            token_types: vec![tt[0], tt[1]],
            token_lengths: vec![TokenLength { spaces_before: 0, content: 1 }, TokenLength { spaces_before: 1, content: 1 }],
            child_line_cache: Default::default(),
        };
        let line = LogicalLine::new(None, 0, vec![0, 1], LogicalLineType::Unknown);
        let first = olf.get_formatting_invariant(0, &line);
        let r = olf.get_formatting_invariant(1, &line);
        let cur_inline = matches!(tt[1], TT::Comment(CommentKind::InlineLine | CommentKind::InlineBlock));
        let cur_own_line = matches!(tt[1], TT::Comment(CommentKind::IndividualLine | CommentKind::IndividualBlock | CommentKind::MultilineBlock) | TT::TextLiteral(TextLiteralKind::MultiLine));
        let prev_needs_break = line_comment(tt[0]) || matches!(tt[0], TT::Comment(CommentKind::MultilineBlock) | TT::TextLiteral(TextLiteralKind::Unterminated));
        kani::cover!(prev_needs_break && !cur_inline, "token after a line comment");
        kani::cover!(cur_own_line, "comment that must start a line");
        kani::cover!(r.is_none(), "no hard requirement");
        assert!(first == Some(DR::MustNotBreak), "OB wrapperedge/first_token_never_broken: no line break is placed before the first token of the file");
        if cur_inline {
            assert!(r == Some(DR::MustNotBreak), "OB wrapperedge/inline_comment_not_broken_off: an inline comment stays on the line of the token before it");
        } else if cur_own_line {
            assert!(r == Some(DR::MustBreak), "OB wrapperedge/break_before_own_line_tokens: individual / multi-line comments and multi-line strings start a line");
        } else if prev_needs_break {
            assert!(r == Some(DR::MustBreak), "OB wrapperedge/break_after_line_comment: a break follows every single-line comment, multi-line block comment and unterminated literal");
        } else {
            assert!(r.is_none() || matches!(tt[0], TT::ConditionalDirective(_)), "OB wrapperedge/no_other_hard_requirement: no other token pair carries a hard requirement");
        }
    }

    // C08: with no logical line to wrap, format() only zeroes spaces at line starts
    #[kani::proof]
    #[kani::unwind(4)]
    fn olf_post_pass() {
        let tt: [TokenType; 2] = kani::any();
        let c: [(u16, u16, u16, u16); 2] = kani::any();
        let fms: bool = kani::any();
        let mut toks = [Token::new_ref("a", 0, tt[0]), Token::new_ref(" b", 1, tt[1])];
        let mut ft = FormattedTokens::verif_new(&mut toks, vec![
            FormattingData::verif_new(false, c[0].0, c[0].1, c[0].2, c[0].3),
            FormattingData::verif_new(false, c[1].0, c[1].1, c[1].2, c[1].3),
        ]);
        let f = OptimisingLineFormatter::new(
            OptimisingLineFormatterSettings { max_line_length: 120, iteration_max: 100, break_before_begin: false, format_multiline_strings: fms },
            ReconstructionSettings::new(LineEnding::Lf, TabKind::Soft, 2, 2),
        );
        f.format(&mut ft, &[]);
        kani::cover!(c[1].0 > 0 && c[1].3 > 0, "spaces at a line start");
        let mut i = 0;
        while i < 2 {
            let d = ft.get_formatting_data(i).unwrap();
            assert!(d.newlines_before == c[i].0 && d.indentations_before == c[i].1 && d.continuations_before == c[i].2,
                "OB wrapperedge/post_pass_frame: the post-pass writes nothing but spaces_before");
            assert!(d.spaces_before == if c[i].0 > 0 { 0 } else { c[i].3 }, "OB wrapperedge/no_spaces_at_line_start: a token that starts a line gets no spaces; others keep theirs");
            i += 1;
        }
        assert!(ft.get_token(0).unwrap().0.get_content() == "a" && ft.get_token(1).unwrap().0.get_content() == "b",
            "OB wrapperedge/post_pass_keeps_text: token text is not touched when no multi-line string is rewritten");
    }
}
