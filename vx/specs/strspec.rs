// ASCII string literals as byte sequences
pub proof fn lemma_ascii1(c: char)
    requires (c as u32) < 128
    ensures encode_utf8(seq![c]) =~= seq![c as u8]
{
    let v = c as u32;
    assert(v < 128 ==> (v & 127) == v) by (bit_vector);
    reveal_with_fuel(encode_utf8, 3);
    assert(seq![c].drop_first() =~= Seq::<char>::empty());
    assert(encode_utf8(seq![c]) =~= encode_scalar(c as u32) + encode_utf8(Seq::<char>::empty()));
}
pub proof fn lemma_ascii2(c: char, d: char)
    requires (c as u32) < 128, (d as u32) < 128
    ensures encode_utf8(seq![c, d]) =~= seq![c as u8, d as u8]
{
    lemma_ascii1(d);
    let v = c as u32;
    assert(v < 128 ==> (v & 127) == v) by (bit_vector);
    reveal_with_fuel(encode_utf8, 3);
    assert(seq![c, d].drop_first() =~= seq![d]);
}
pub proof fn lemma_literals()
    ensures " ".spec_bytes() =~= seq![0x20u8], "\t".spec_bytes() =~= seq![0x09u8],
            "\n".spec_bytes() =~= seq![0x0au8], "\r\n".spec_bytes() =~= seq![0x0du8, 0x0au8]
{
    reveal_strlit(" "); reveal_strlit("\t"); reveal_strlit("\n"); reveal_strlit("\r\n");
    assert(" "@ =~= seq![' ']); assert("\t"@ =~= seq!['\t']); assert("\n"@ =~= seq!['\n']); assert("\r\n"@ =~= seq!['\r', '\n']);
    lemma_ascii1(' '); lemma_ascii1('\t'); lemma_ascii1('\n'); lemma_ascii2('\r', '\n');
}
