// Pure specification text (no repository code): Delphi blanks and token-vector views.
// blank = code points U+0000..U+0020 and U+3000 (E3 80 80 in UTF-8)  [property C13 / C01]
pub open spec fn blank_run(s: Seq<u8>, from: int) -> int
    decreases s.len() - from
{
    if 0 <= from < s.len() && s[from] <= 0x20 {
        1 + blank_run(s, from + 1)
    } else if 0 <= from && from + 2 < s.len() && s[from] == 0xE3 && s[from + 1] == 0x80 && s[from + 2] == 0x80 {
        3 + blank_run(s, from + 3)
    } else {
        0
    }
}

pub proof fn lemma_blank_run_bound(s: Seq<u8>, from: int)
    requires 0 <= from <= s.len()
    ensures 0 <= blank_run(s, from) <= s.len() - from
    decreases s.len() - from
{
    if from < s.len() && s[from] <= 0x20 {
        lemma_blank_run_bound(s, from + 1);
    } else if from + 2 < s.len() && s[from] == 0xE3 && s[from + 1] == 0x80 && s[from + 2] == 0x80 {
        lemma_blank_run_bound(s, from + 3);
    }
}

// cutting the text anywhere after the end of the blank run does not change the run
pub proof fn lemma_blank_run_prefix(s: Seq<u8>, from: int, e: int)
    requires 0 <= from, from + blank_run(s, from) < e <= s.len()
    ensures blank_run(s.subrange(0, e), from) == blank_run(s, from)
    decreases s.len() - from
{
    let p = s.subrange(0, e);
    lemma_blank_run_bound(s, from);
    assert(from < e);
    assert(p[from] == s[from]);
    if from < s.len() && s[from] <= 0x20 {
        lemma_blank_run_prefix(s, from + 1, e);
    } else if from + 2 < s.len() && s[from] == 0xE3 && s[from + 1] == 0x80 && s[from + 2] == 0x80 {
        lemma_blank_run_bound(s, from + 3);
        assert(from + 2 < e);
        assert(p[from + 1] == s[from + 1]);
        assert(p[from + 2] == s[from + 2]);
        lemma_blank_run_prefix(s, from + 3, e);
    } else {
        if from + 2 < e {
            assert(p[from + 1] == s[from + 1]);
            assert(p[from + 2] == s[from + 2]);
        }
        assert(blank_run(p, from) == 0);
    }
}

// the whole text is one blank run => so is every prefix-complete copy of it
pub proof fn lemma_blank_run_all(s: Seq<u8>, t: Seq<u8>)
    requires s =~= t
    ensures blank_run(s, 0) == blank_run(t, 0)
{
}
