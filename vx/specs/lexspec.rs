// Pure specification text (no repository code): Delphi blanks and token-vector views.
// blank = code points U+0000..U+0020 and U+3000 (E3 80 80 in UTF-8)  [property C13 / C01]
pub open spec fn blank_run(s: Seq<u8>, from: int) -> int
    decreases s.len() - from
{
    if 0 <= from < s.len() && s[from] <= 0x20 {
        1 + blank_run(s, from + 1)
    } else if 0 <= from && from + 2 < s.len() && s[from] == 0xE3 && s[from + 1] == 0x80 && s[from + 2] == 0x80 {
        3 + blank_run(s, from + 3)
    } else {
        0
    }
}

pub proof fn lemma_blank_run_bound(s: Seq<u8>, from: int)
    requires 0 <= from <= s.len()
    ensures 0 <= blank_run(s, from) <= s.len() - from
    decreases s.len() - from
{
    if from < s.len() && s[from] <= 0x20 {
        lemma_blank_run_bound(s, from + 1);
    } else if from + 2 < s.len() && s[from] == 0xE3 && s[from + 1] == 0x80 && s[from + 2] == 0x80 {
        lemma_blank_run_bound(s, from + 3);
    }
}

// cutting the text anywhere after the end of the blank run does not change the run
pub proof fn lemma_blank_run_prefix(s: Seq<u8>, from: int, e: int)
    requires 0 <= from, from + blank_run(s, from) < e <= s.len()
    ensures blank_run(s.subrange(0, e), from) == blank_run(s, from)
    decreases s.len() - from
{
    let p = s.subrange(0, e);
    lemma_blank_run_bound(s, from);
    assert(from < e);
    assert(p[from] == s[from]);
    if from < s.len() && s[from] <= 0x20 {
        lemma_blank_run_prefix(s, from + 1, e);
    } else if from + 2 < s.len() && s[from] == 0xE3 && s[from + 1] == 0x80 && s[from + 2] == 0x80 {
        lemma_blank_run_bound(s, from + 3);
        assert(from + 2 < e);
        assert(p[from + 1] == s[from + 1]);
        assert(p[from + 2] == s[from + 2]);
        lemma_blank_run_prefix(s, from + 3, e);
    } else {
        if from + 2 < e {
            assert(p[from + 1] == s[from + 1]);
            assert(p[from + 2] == s[from + 2]);
        }
        assert(blank_run(p, from) == 0);
    }
}

// the whole text is one blank run => so is every prefix-complete copy of it
pub proof fn lemma_blank_run_all(s: Seq<u8>, t: Seq<u8>)
    requires s =~= t
    ensures blank_run(s, 0) == blank_run(t, 0)
{
}

// the first n bytes are ASCII blanks: the run from 0 is n plus the run from n  (byte loop of count_leading_whitespace)
pub open spec fn all_ascii_blank(s: Seq<u8>, n: int) -> bool { forall|i: int| 0 <= i < n ==> s[i] <= 0x20 }

pub proof fn lemma_blank_prefix(s: Seq<u8>, n: int)
    requires 0 <= n <= s.len(), all_ascii_blank(s, n)
    ensures blank_run(s, 0) == n + blank_run(s, n)
    decreases n
{
    if n > 0 {
        lemma_blank_prefix(s, n - 1);
        assert(blank_run(s, n - 1) == 1 + blank_run(s, n));
    }
}

// ---- UTF-8 facts used for "all boundaries fall on character boundaries" ----
pub proof fn lemma_str_valid(s: &str)
    ensures valid_utf8(s.spec_bytes())
{
    encode_utf8_valid_utf8(s@);
}

pub proof fn lemma_boundary_after_ascii(s: Seq<u8>, i: int)
    requires valid_utf8(s), 0 <= i < s.len(), s[i] < 0x80, is_char_boundary(s, i)
    ensures is_char_boundary(s, i + 1)
    decreases s.len()
{
    if i == 0 {
        assert(length_of_first_scalar(s) == 1);
        assert(is_char_boundary(pop_first_scalar(s), 0));
    } else {
        let l = length_of_first_scalar(s);
        let p = pop_first_scalar(s);
        assert(is_char_boundary(p, i - l));
        assert(valid_utf8(p));
        assert(p[i - l] == s[i]);
        lemma_boundary_after_ascii(p, i - l);
    }
}

pub proof fn lemma_ascii_not_continuation(b: u8)
    requires b < 0x80
    ensures !is_continuation_byte(b)
{
    assert(b < 0x80 ==> (b & 0xC0) != 0x80) by (bit_vector);
}

// an ASCII byte sits between two character boundaries
pub proof fn lemma_ascii_boundaries(s: Seq<u8>, i: int)
    requires valid_utf8(s), 0 <= i < s.len(), s[i] < 0x80
    ensures is_char_boundary(s, i), is_char_boundary(s, i + 1)
{
    lemma_ascii_not_continuation(s[i]);
    is_char_boundary_iff_not_is_continuation_byte(s, i);
    lemma_boundary_after_ascii(s, i);
}

// maximal run of bytes satisfying a byte class, as a spec-level closure
pub open spec fn run_of(s: Seq<u8>, from: int, cls: spec_fn(u8) -> bool) -> int
    decreases s.len() - from
{
    if 0 <= from < s.len() && cls(s[from]) { 1 + run_of(s, from + 1, cls) } else { 0 }
}

pub proof fn lemma_run_of_bound(s: Seq<u8>, from: int, cls: spec_fn(u8) -> bool)
    requires 0 <= from <= s.len()
    ensures 0 <= run_of(s, from, cls) <= s.len() - from
    decreases s.len() - from
{
    if from < s.len() && cls(s[from]) { lemma_run_of_bound(s, from + 1, cls); }
}

// every byte inside the run is in the class, the byte after it (if any) is not
pub proof fn lemma_run_of_members(s: Seq<u8>, from: int, cls: spec_fn(u8) -> bool, k: int)
    requires 0 <= from <= s.len(), 0 <= k < run_of(s, from, cls)
    ensures from + k < s.len(), cls(s[from + k])
    decreases k
{
    lemma_run_of_bound(s, from, cls);
    if k > 0 { lemma_run_of_members(s, from + 1, cls, k - 1); }
}

// a run of ASCII bytes starting on a boundary ends on a boundary
pub proof fn lemma_ascii_run_boundary(s: Seq<u8>, from: int, cls: spec_fn(u8) -> bool)
    requires valid_utf8(s), 0 <= from <= s.len(), is_char_boundary(s, from),
             forall|b: u8| #[trigger] cls(b) ==> b < 0x80
    ensures is_char_boundary(s, from + run_of(s, from, cls))
    decreases s.len() - from
{
    if from < s.len() && cls(s[from]) {
        lemma_boundary_after_ascii(s, from);
        lemma_ascii_run_boundary(s, from + 1, cls);
    }
}

pub open spec fn is_dec_digit(b: u8) -> bool { b == 0x5f || (0x30 <= b <= 0x39) }
pub open spec fn is_hex_digit(b: u8) -> bool { b == 0x5f || (0x30 <= b <= 0x39) || (0x61 <= b <= 0x66) || (0x41 <= b <= 0x46) }
pub open spec fn is_bin_digit(b: u8) -> bool { b == 0x5f || b == 0x30 || b == 0x31 }

// a prefix of ASCII bytes ends on a character boundary
pub proof fn lemma_ascii_prefix_boundary(s: Seq<u8>, n: int)
    requires valid_utf8(s), 0 <= n <= s.len(), forall|i: int| 0 <= i < n ==> s[i] < 0x80
    ensures is_char_boundary(s, n)
    decreases n
{
    if n == 0 {
        is_char_boundary_start_end_of_seq(s);
    } else {
        lemma_ascii_prefix_boundary(s, n - 1);
        lemma_boundary_after_ascii(s, n - 1);
    }
}
