"""U2 lexops — loop-free sub-scanners against the Delphi lexical rules, for all
lengths and offsets (Verus, verbatim bodies).

Each scanner f(args) is entered by the dispatch table with args.offset one
past its first byte.  Shared precondition `at_tok`: the first byte is ASCII and
sits on a character boundary.  Shared postcondition `sub_ok` is exactly what
the loop proof (lexloop) assumes of lex_token; the per-function clauses give
extent and kind by longest match.
"""
import re

import lexloop as L
import vxgen

LEX = L.LEX

OPSPEC = '''
spec fn blen(a: &LexArgs) -> int { a.input.spec_bytes().len() as int }
spec fn byte_at(a: &LexArgs, k: int) -> u8 { a.input.spec_bytes()[a.offset + k] }
spec fn has(a: &LexArgs, k: int) -> bool { 0 <= a.offset + k < blen(a) }
// entered one byte after an ASCII first byte that starts on a character boundary
spec fn at_tok(a: &LexArgs) -> bool {
    1 <= a.offset <= blen(a) && blen(a) <= isize::MAX
    && a.input.spec_bytes()[a.offset - 1] < 0x80
}
spec fn first(a: &LexArgs) -> u8 { a.input.spec_bytes()[a.offset - 1] }
// what the scanner loop needs from every sub-scanner
spec fn sub_ok(a: &LexArgs, r: OffsetAndTokenType) -> bool {
    a.offset <= r.0 <= blen(a) && is_char_boundary(a.input.spec_bytes(), r.0 as int) && r.1 != TT::Eof
}
proof fn lemma_tok(a: &LexArgs)
    requires at_tok(a)
    ensures valid_utf8(a.input.spec_bytes()), is_char_boundary(a.input.spec_bytes(), a.offset as int),
            has(a, 0) && byte_at(a, 0) < 0x80 ==> is_char_boundary(a.input.spec_bytes(), a.offset + 1)
{
    lemma_str_valid(a.input);
    lemma_ascii_boundaries(a.input.spec_bytes(), a.offset - 1);
    if has(a, 0) && byte_at(a, 0) < 0x80 { lemma_ascii_boundaries(a.input.spec_bytes(), a.offset as int); }
}
'''

PRO = '    proof { lemma_tok(&args); }'


def two_char(byte, kind2):
    return '(has(&args, 0) && byte_at(&args, 0) == %s) ==> r == (((args.offset + 1) as usize, %s))' % (byte, kind2)


def build(u):
    u.raw('use vstd::prelude::*;\nverus! {\n')
    L.lang_module(u)
    L.lexer_prelude(u)
    u.raw(OPSPEC)

    # LexArgs methods
    u.raw("impl LexArgs<'_, '_> {\n")
    W = r"^impl LexArgs<'_, '_> \{"
    u.fn(LEX, r'^    fn consume\(self, bytes: usize\)', name='LexArgs::consume', within_re=W,
         requires=['self.offset + bytes <= usize::MAX'],
         ensures=['r.offset == self.offset + bytes', 'r.input == self.input'])
    u.fn(LEX, r'^    fn next_byte\(&self\)', name='LexArgs::next_byte', within_re=W,
         ensures=['self.offset < self.input.spec_bytes().len() ==> r == Some(&self.input.spec_bytes()[self.offset as int])',
                  'self.offset >= self.input.spec_bytes().len() ==> r.is_none()'])
    u.stub(LEX, r'^    fn prev_byte\(&self\)', name='LexArgs::prev_byte', within_re=W, kx='lextable::prev_byte',
           ensures=['1 <= self.offset <= self.input.spec_bytes().len() ==> r == Some(&self.input.spec_bytes()[self.offset - 1])'])
    u.raw('}\n')

    gen = dict(requires=['at_tok(&args)'], opens_with=PRO)

    def opfn(name, first_byte, clauses):
        u.fn(LEX, r'^fn %s\(args: LexArgs\)' % name, name=name,
             requires=['at_tok(&args)', 'first(&args) == %s' % first_byte],
             ensures=['sub_ok(&args, r)'] + clauses, opens_with=PRO)

    opfn('colon', '0x3a', [
        two_char('0x3d', 'TT::Op(OK::Assign)'),
        '!(has(&args, 0) && byte_at(&args, 0) == 0x3d) ==> r == ((args.offset, TT::Op(OK::Colon)))'])
    opfn('l_angle', '0x3c', [
        two_char('0x3d', 'TT::Op(OK::LessEqual)'),
        two_char('0x3e', 'TT::Op(OK::NotEqual)'),
        '!(has(&args, 0) && (byte_at(&args, 0) == 0x3d || byte_at(&args, 0) == 0x3e)) ==> r == ((args.offset, TT::Op(OK::LessThan(ChevronKind::Comp))))'])
    opfn('r_angle', '0x3e', [
        two_char('0x3d', 'TT::Op(OK::GreaterEqual)'),
        '!(has(&args, 0) && byte_at(&args, 0) == 0x3d) ==> r == ((args.offset, TT::Op(OK::GreaterThan(ChevronKind::Comp))))'])
    opfn('dot', '0x2e', [
        two_char('0x2e', 'TT::Op(OK::DotDot)'),
        two_char('0x29', 'TT::Op(OK::RBrack)'),
        '!(has(&args, 0) && (byte_at(&args, 0) == 0x2e || byte_at(&args, 0) == 0x29)) ==> r == ((args.offset, TT::Op(OK::Dot)))'])

    # D3: basic_op! instances, expanded from the macro_rules! body in the source
    src = u.src(LEX)
    m = re.search(r'macro_rules! basic_op \{\n\s*\(\$name: ident, \$typ: expr\) => \{\n(.*?)\n    \};\n\}', src, re.S)
    if not m:
        raise __import__('vxgen').LostAnchor('macro_rules! basic_op not found in the expected shape')
    template = m.group(1)
    first_bytes = {'plus': '0x2b', 'minus': '0x2d', 'star': '0x2a', 'comma': '0x2c', 'semicolon': '0x3b', 'equal': '0x3d',
                   'caret': '0x5e', 'address_of': '0x40', 'l_brack': '0x5b', 'r_brack': '0x5d', 'r_paren': '0x29'}
    insts = re.findall(r'^basic_op!\((\w+), (.*)\);$', src, re.M)
    if len(insts) != 11:
        raise __import__('vxgen').LostAnchor('expected 11 basic_op! instances, found %d' % len(insts))
    for name, typ in insts:
        text = template.replace('$name', name).replace('$typ', typ)
        text = '\n'.join(l[8:] if l.startswith('        ') else l for l in text.split('\n'))
        i = text.index('{')
        line = src[:src.index('basic_op!(%s,' % name)].count('\n') + 1
        if name not in first_bytes:
            raise __import__('vxgen').LostAnchor('unknown basic_op %s' % name)
        u.fn(LEX, None, name=name, synth=(text[:i], text[i:], line, 'basic_op!(%s, %s) expanded from the macro_rules! body in the source' % (name, typ)),
             requires=['at_tok(&args)', 'first(&args) == %s' % first_bytes[name]],
             ensures=['sub_ok(&args, r)', 'r == ((args.offset, RawTokenType::Op(%s)))' % typ], opens_with=PRO)

    # assumed callees (looping scanners; discharged by KX lexcomplex / lexscan)
    def assumed(name, header, kx, extra_req=None, ens=None, edits=None):
        u.stub(LEX, header, name=name, kx=kx, edits=edits,
               requires=['at_tok(&args)'] + (extra_req or []), ensures=['sub_ok(&args, r)'] + (ens or []))
    DS = ("LexArgs {\n        input,\n        offset,\n        lex_state,\n    }: LexArgs,", "args: LexArgs,", 'D6')
    assumed('line_comment', r'^fn line_comment\(', 'lexcomplex::line_comment', edits=[DS])
    assumed('block_comment_alt', r'^fn block_comment_alt\(args: LexArgs\)', 'lexcomplex::block_comment')
    assumed('block_comment', r'^fn block_comment\(args: LexArgs\)', 'lexcomplex::block_comment')
    u.item(LEX, r'^enum BlockCommentKind \{', prefix='#[derive(Eq, PartialEq, Copy, Clone)]\n', name='enum BlockCommentKind')
    u.stub(LEX, r'^fn compiler_directive\(args: LexArgs, kind: BlockCommentKind\)', name='compiler_directive', kx='lexcomplex::compiler_directive',
           requires=['at_tok(&args)'], ensures=['sub_ok(&args, r)'])

    for nm, byte in (('compiler_directive_or_comment_alt', None), ('compiler_directive_or_comment', None)):
        u.fn(LEX, r'^fn %s\(args: LexArgs\)' % nm, name=nm, requires=['at_tok(&args)'], ensures=['sub_ok(&args, r)'], opens_with=PRO)
    opfn('l_paren', '0x28', [
        two_char('0x2e', 'TT::Op(OK::LBrack)'),
        '!(has(&args, 0) && (byte_at(&args, 0) == 0x2e || byte_at(&args, 0) == 0x2a)) ==> r == ((args.offset, TT::Op(OK::LParen)))'])
    opfn('l_brace', '0x7b', [])
    opfn('slash', '0x2f', [
        '!(has(&args, 0) && byte_at(&args, 0) == 0x2f) ==> r == ((args.offset, TT::Op(OK::Slash)))'])

    # number scanners: exact extent = maximal digit run
    for nm, cls in (('count_decimal', 'is_dec_digit'), ('count_hex', 'is_hex_digit'), ('count_binary', 'is_bin_digit')):
        u.stub(LEX, r'^fn %s\(input: &str, offset: usize\)' % nm, name=nm, kx='lexscan::' + nm,
               requires=['offset <= input.spec_bytes().len()'],
               ensures=['r == run_of(input.spec_bytes(), offset as int, |b: u8| %s(b))' % cls])
    RUNPRO = lambda cls: (PRO + '\n    proof { lemma_run_of_bound(args.input.spec_bytes(), args.offset as int, |b: u8| %s(b));\n'
                          '        lemma_ascii_run_boundary(args.input.spec_bytes(), args.offset as int, |b: u8| %s(b)); }' % (cls, cls))
    u.fn(LEX, r'^fn hex_number_literal\(args: LexArgs\)', name='hex_number_literal',
         requires=['at_tok(&args)'],
         ensures=['sub_ok(&args, r)',
                  'r.0 == args.offset + run_of(args.input.spec_bytes(), args.offset as int, |b: u8| is_hex_digit(b))',
                  'r.1 == TT::NumberLiteral(NLK::Hex)'],
         opens_with=RUNPRO('is_hex_digit'))
    u.fn(LEX, r'^fn binary_number_literal\(args: LexArgs\)', name='binary_number_literal',
         requires=['at_tok(&args)'],
         ensures=['sub_ok(&args, r)',
                  'r.0 == args.offset + run_of(args.input.spec_bytes(), args.offset as int, |b: u8| is_bin_digit(b))',
                  'r.1 == TT::NumberLiteral(NLK::Binary)'],
         opens_with=RUNPRO('is_bin_digit'))
    u.fn(LEX, r'^fn count_full_decimal\(input: &str, offset: usize\)', name='count_full_decimal',
         requires=['offset <= input.spec_bytes().len()'],
         ensures=['(offset < input.spec_bytes().len() && input.spec_bytes()[offset as int] == 0x5f) ==> r == 0',
                  '!(offset < input.spec_bytes().len() && input.spec_bytes()[offset as int] == 0x5f) ==> r == run_of(input.spec_bytes(), offset as int, |b: u8| is_dec_digit(b))'])
    u.fn(LEX, r'^fn asm_number_literal\(mut args: LexArgs\)', name='asm_number_literal',
         requires=['at_tok(&args)'],
         ensures=['sub_ok(&args, r)',
                  'r.0 >= args.offset + run_of(args.input.spec_bytes(), args.offset as int, |b: u8| is_hex_digit(b))',
                  'r.0 <= args.offset + run_of(args.input.spec_bytes(), args.offset as int, |b: u8| is_hex_digit(b)) + 1',
                  'r.1 is NumberLiteral'],
         opens_with=RUNPRO('is_hex_digit') + '\n    let ghost a0 = args.offset; let ghost bs = args.input.spec_bytes();',
         hints=[{'at': 'match args.next_byte()', 'where': 'before',
                 'text': '    proof { if args.offset < bs.len() && bs[args.offset as int] < 0x80 { lemma_ascii_boundaries(bs, args.offset as int); } }'}])
    # decimal literal: digits [. digits] [e|E [+|-] digits]; a fraction / exponent digit run cannot start with '_'
    u.raw('''
spec fn dec_run(s: Seq<u8>, o: int) -> int { run_of(s, o, |b: u8| is_dec_digit(b)) }
spec fn full_dec_run(s: Seq<u8>, o: int) -> int { if 0 <= o < s.len() && s[o] == 0x5f { 0 } else { dec_run(s, o) } }
spec fn dec_after_int(s: Seq<u8>, o: int) -> int { o + dec_run(s, o) }
spec fn dec_after_frac(s: Seq<u8>, a: int) -> int {
    if 0 <= a < s.len() && s[a] == 0x2e && full_dec_run(s, a + 1) > 0 { a + 1 + full_dec_run(s, a + 1) } else { a }
}
spec fn dec_after_exp(s: Seq<u8>, b: int) -> int {
    if 0 <= b < s.len() && (s[b] == 0x65 || s[b] == 0x45) {
        let c = if b + 1 < s.len() && (s[b + 1] == 0x2b || s[b + 1] == 0x2d) { b + 2 } else { b + 1 };
        c + full_dec_run(s, c)
    } else { b }
}
spec fn dec_end(s: Seq<u8>, o: int) -> int { dec_after_exp(s, dec_after_frac(s, dec_after_int(s, o))) }
proof fn lemma_dec_step(s: Seq<u8>, o: int)
    requires valid_utf8(s), 0 <= o <= s.len(), is_char_boundary(s, o)
    ensures o <= o + dec_run(s, o) <= s.len(), is_char_boundary(s, o + dec_run(s, o)),
            o <= o + full_dec_run(s, o) <= s.len(), is_char_boundary(s, o + full_dec_run(s, o))
{
    lemma_run_of_bound(s, o, |b: u8| is_dec_digit(b));
    lemma_ascii_run_boundary(s, o, |b: u8| is_dec_digit(b));
}
''')
    u.fn(LEX, r'^fn dec_number_literal\(mut args: LexArgs\)', name='dec_number_literal',
         edits=[vxgen.D8_REFPAT],
         requires=['at_tok(&args)'],
         ensures=['sub_ok(&args, r)',
                  'r.0 == dec_end(args.input.spec_bytes(), args.offset as int)',
                  'r.1 == TT::NumberLiteral(NLK::Decimal)'],
         opens_with=PRO + '\n    let ghost bs = args.input.spec_bytes(); let ghost o0 = args.offset as int;\n    proof { lemma_dec_step(bs, o0); }',
         hints=[
             {'at': "if args.next_byte() == Some(&b'.')", 'where': 'before',
              'text': '    proof { if args.offset < bs.len() && bs[args.offset as int] == 0x2e { lemma_ascii_boundaries(bs, args.offset as int); lemma_dec_step(bs, args.offset + 1); } }'},
             {'at': "if matches!(args.next_byte(), Some(b'e' | b'E'))", 'where': 'before',
              'text': '    proof { assert(args.offset == dec_after_frac(bs, dec_after_int(bs, o0)));\n'
                      '        if args.offset < bs.len() && (bs[args.offset as int] == 0x65 || bs[args.offset as int] == 0x45) {\n'
                      '            lemma_ascii_boundaries(bs, args.offset as int);\n'
                      '            if args.offset + 1 < bs.len() && (bs[args.offset + 1] == 0x2b || bs[args.offset + 1] == 0x2d) { lemma_ascii_boundaries(bs, args.offset + 1); lemma_dec_step(bs, args.offset + 2); }\n'
                      '            lemma_dec_step(bs, args.offset + 1);\n'
                      '        } }'},
         ])
    u.assume('D8: reference patterns `Some(&b\'e\' | b\'E\')` on Option<&u8> rewritten to `Some(b\'e\' | b\'E\')` (default binding modes: same match semantics); Verus rejects the mixed form')
    # asm string literal "..." with backslash escapes; ends at the closing quote, or before a line break / at the end
    u.stub(LEX, r'^fn warn_unterminated\(', name='warn_unterminated')
    u.fn(LEX, r'^fn asm_text_literal\(mut args: LexArgs\)', name='asm_text_literal', rebind_mut=('args', 'args0'),
         requires=['at_tok(&args0)'],
         ensures=['sub_ok(&args0, r)',
                  'r.1 == TT::TextLiteral(TLK::Asm) || r.1 == TT::TextLiteral(TLK::Unterminated)',
                  'r.1 == TT::TextLiteral(TLK::Asm) ==> r.0 > args0.offset && args0.input.spec_bytes()[r.0 - 1] == 0x22',
                  'r.1 == TT::TextLiteral(TLK::Unterminated) ==> r.0 == blen(&args0) || args0.input.spec_bytes()[r.0 as int] == 0x0a || args0.input.spec_bytes()[r.0 as int] == 0x0d',
                  # a line break inside the literal can only directly follow a backslash
                  'forall|i: int| args0.offset <= i < r.0 && (#[trigger] args0.input.spec_bytes()[i] == 0x0a || args0.input.spec_bytes()[i] == 0x0d) ==> i > args0.offset && args0.input.spec_bytes()[i - 1] == 0x5c'],
         opens_with='    proof { lemma_tok(&args0); }\n    let ghost bs = args0.input.spec_bytes();',
         loops=[{'keyword': 'loop',
                 'invariant': ['args.input == args0.input', 'bs == args0.input.spec_bytes()', 'valid_utf8(bs)', 'args0.offset <= args.offset <= bs.len()', 'bs.len() <= isize::MAX',
                               'forall|i: int| args0.offset <= i < args.offset && (#[trigger] bs[i] == 0x0a || bs[i] == 0x0d) ==> i > args0.offset && bs[i - 1] == 0x5c'],
                 'ensures': ['args.offset == bs.len() || bs[args.offset as int] == 0x0a || bs[args.offset as int] == 0x0d'],
                 'decreases': 'bs.len() - args.offset'}],
         hints=[{'at': 'return (args.offset + 1, TT::TextLiteral(TLK::Asm));', 'where': 'before',
                 'text': '                proof { lemma_ascii_boundaries(bs, args.offset as int); }'},
                {'at': 'warn_unterminated("asm text literal"', 'where': 'before',
                 'text': '    proof { if args.offset < bs.len() { lemma_ascii_boundaries(bs, args.offset as int); } else { is_char_boundary_start_end_of_seq(bs); } }'}])

    # identifier starting with a non-ASCII character: first advance to the end of that character
    u.stub(LEX, r'^fn identifier\(args: LexArgs\)', name='identifier', kx='lexscan::identifier_end',
           requires=['args.offset <= blen(&args)', 'is_char_boundary(args.input.spec_bytes(), args.offset as int)'],
           ensures=['sub_ok(&args, r)', 'r.1 == TT::Identifier'])
    u.fn(LEX, r'^fn unicode_identifier\(mut args: LexArgs\)', name='unicode_identifier', rebind_mut=('args', 'args0'),
         requires=['1 <= args0.offset <= blen(&args0)', 'blen(&args0) <= isize::MAX'],
         ensures=['args0.offset <= r.0 <= blen(&args0)', 'is_char_boundary(args0.input.spec_bytes(), r.0 as int)', 'r.1 == TT::Identifier'],
         opens_with='    let ghost bs = args0.input.spec_bytes();\n    proof { lemma_str_valid(args0.input); is_char_boundary_start_end_of_seq(bs); }',
         loops=[{'keyword': 'while',
                 'invariant': ['args.input == args0.input', 'bs == args0.input.spec_bytes()', 'valid_utf8(bs)', 'args0.offset <= args.offset <= bs.len()', 'bs.len() <= isize::MAX', 'is_char_boundary(bs, bs.len() as int)'],
                 'decreases': 'bs.len() - args.offset'}])
    # keyword hash: no index / overflow panic for any word of at most 14 bytes, result bounded
    u.item(LEX, r'^    const KEYWORD_ASSO_VALUES: \[u8; 256\]', const=True, name='const KEYWORD_ASSO_VALUES',
           within_re=r'^fn get_word_token_type\(input: &str\)')
    u.fn(LEX, r'^    const fn hash_keyword\(input: &str\)', name='hash_keyword', within_re=r'^fn get_word_token_type\(input: &str\)',
         requires=['input.spec_bytes().len() <= 14'],
         ensures=['r as int <= 14 + 4 * 255'])
    u.fn(LEX, r'^fn block_comment_kind\(nl_before: bool, nl_inside: bool\)', name='block_comment_kind',
         ensures=['nl_inside ==> r == CommentKind::MultilineBlock',
                  '!nl_inside && nl_before ==> r == CommentKind::IndividualBlock',
                  '!nl_inside && !nl_before ==> r == CommentKind::InlineBlock'])
    u.raw('}\n}\nfn main() {}\n')
