"""U2 lexops — loop-free sub-scanners against the Delphi lexical rules, for all
lengths and offsets (Verus, verbatim bodies).

Each scanner f(args) is entered by the dispatch table with args.offset one
past its first byte.  Shared precondition `at_tok`: the first byte is ASCII and
sits on a character boundary.  Shared postcondition `sub_ok` is exactly what
the loop proof (lexloop) assumes of lex_token; the per-function clauses give
extent and kind by longest match.
"""
import re

import lexloop as L
import vxgen

LEX = L.LEX

OPSPEC = '''
spec fn blen(a: &LexArgs) -> int { a.input.spec_bytes().len() as int }
spec fn byte_at(a: &LexArgs, k: int) -> u8 { a.input.spec_bytes()[a.offset + k] }
spec fn has(a: &LexArgs, k: int) -> bool { 0 <= a.offset + k < blen(a) }
// entered one byte after an ASCII first byte that starts on a character boundary
spec fn at_tok(a: &LexArgs) -> bool {
    1 <= a.offset <= blen(a) && blen(a) <= isize::MAX
    && a.input.spec_bytes()[a.offset - 1] < 0x80
}
spec fn first(a: &LexArgs) -> u8 { a.input.spec_bytes()[a.offset - 1] }
// what the scanner loop needs from every sub-scanner
spec fn sub_ok(a: &LexArgs, r: OffsetAndTokenType) -> bool {
    a.offset <= r.0 <= blen(a) && is_char_boundary(a.input.spec_bytes(), r.0 as int) && r.1 != TT::Eof
}
proof fn lemma_tok(a: &LexArgs)
    requires at_tok(a)
    ensures valid_utf8(a.input.spec_bytes()), is_char_boundary(a.input.spec_bytes(), a.offset as int),
            has(a, 0) && byte_at(a, 0) < 0x80 ==> is_char_boundary(a.input.spec_bytes(), a.offset + 1)
{
    lemma_str_valid(a.input);
    lemma_ascii_boundaries(a.input.spec_bytes(), a.offset - 1);
    if has(a, 0) && byte_at(a, 0) < 0x80 { lemma_ascii_boundaries(a.input.spec_bytes(), a.offset as int); }
}
'''

CMTSPEC = '''
// ---- comments, directives, string helpers: "first occurrence" vocabulary over a window of the text ----
pub open spec fn no_byte(h: Seq<u8>, upto: int, n: u8) -> bool { forall|k: int| 0 <= k < upto ==> #[trigger] h[k] != n }
pub open spec fn no_byte2(h: Seq<u8>, upto: int, a: u8, b: u8) -> bool { forall|k: int| 0 <= k < upto ==> #[trigger] h[k] != a && h[k] != b }
pub open spec fn no_byte3(h: Seq<u8>, upto: int, a: u8, b: u8, c: u8) -> bool { forall|k: int| 0 <= k < upto ==> #[trigger] h[k] != a && h[k] != b && h[k] != c }
pub open spec fn pair_at(h: Seq<u8>, k: int, a: u8, b: u8) -> bool { 0 <= k && k + 1 < h.len() && h[k] == a && h[k + 1] == b }
// (the trigger is the named predicate: a trigger on h[k] with h[k + 1] in the body would be a matching loop)
pub open spec fn no_pair(h: Seq<u8>, upto: int, a: u8, b: u8) -> bool { forall|k: int| 0 <= k < upto ==> !#[trigger] pair_at(h, k, a, b) }
pub open spec fn matches_at(h: Seq<u8>, k: int, n: Seq<u8>) -> bool { 0 <= k && k + n.len() <= h.len() && forall|j: int| 0 <= j < n.len() ==> #[trigger] h[k + j] == n[j] }
pub proof fn lemma_run_of_all(s: Seq<u8>, from: int, cls: spec_fn(u8) -> bool)
    requires 0 <= from <= s.len()
    ensures from + run_of(s, from, cls) <= s.len(), forall|i: int| from <= i < from + run_of(s, from, cls) ==> cls(#[trigger] s[i])
    decreases s.len() - from
{
    if from < s.len() && cls(s[from]) { lemma_run_of_all(s, from + 1, cls); }
}
pub open spec fn ascii_bounds_ok(s: Seq<u8>) -> bool {
    is_char_boundary(s, s.len() as int) && forall|i: int| 0 <= i < s.len() && #[trigger] s[i] < 0x80 ==> is_char_boundary(s, i) && is_char_boundary(s, i + 1)
}
pub proof fn lemma_no_byte3_abs(s: Seq<u8>, lo: int, n: int, a: u8, b: u8, c: u8)
    requires 0 <= lo, 0 <= n, lo + n <= s.len(), no_byte3(s.subrange(lo, s.len() as int), n, a, b, c)
    ensures forall|i: int| lo <= i < lo + n ==> #[trigger] s[i] != a && s[i] != b && s[i] != c
{
    assert forall|i: int| lo <= i < lo + n implies #[trigger] s[i] != a && s[i] != b && s[i] != c by {
        assert(s.subrange(lo, s.len() as int)[i - lo] == s[i]);
    }
}
// bytes an escaped-character sequence (#13, #$0D, #%1010) is made of
pub open spec fn esc_byte(b: u8) -> bool { b == 0x23 || b == 0x24 || b == 0x25 || is_hex_digit(b) }
spec fn spec_block_kind(nl_before: bool, nl_inside: bool) -> CommentKind {
    if nl_inside { CommentKind::MultilineBlock } else if nl_before { CommentKind::IndividualBlock } else { CommentKind::InlineBlock }
}
spec fn tail(a: &LexArgs) -> Seq<u8> { a.input.spec_bytes().subrange(a.offset as int, blen(a)) }
spec fn head(a: &LexArgs) -> Seq<u8> { a.input.spec_bytes().subrange(0, a.offset as int) }
// "first on its line": nothing but the start of the text, or a line break somewhere before
spec fn nl_before(a: &LexArgs, is_first: bool) -> bool { is_first || !no_byte2(head(a), a.offset as int, 0x0a, 0x0d) }
proof fn lemma_all_ascii_boundaries(s: Seq<u8>)
    requires valid_utf8(s)
    ensures is_char_boundary(s, s.len() as int), is_char_boundary(s, 0),
            forall|i: int| 0 <= i < s.len() && #[trigger] s[i] < 0x80 ==> is_char_boundary(s, i) && is_char_boundary(s, i + 1)
{
    is_char_boundary_start_end_of_seq(s);
    assert forall|i: int| 0 <= i < s.len() && #[trigger] s[i] < 0x80 implies is_char_boundary(s, i) && is_char_boundary(s, i + 1) by {
        lemma_ascii_boundaries(s, i);
    }
}
// ASSUMED contracts of the memchr crate (dependency; documented behaviour: index of the first match, None when there is none)
pub mod memchr {
    use vstd::prelude::*;
    use super::*;
    #[verifier::external_body]
    pub fn memchr(n: u8, h: &[u8]) -> (r: Option<usize>)
        ensures match r { Some(i) => i < h@.len() && h@[i as int] == n && no_byte(h@, i as int, n), None => no_byte(h@, h@.len() as int, n) }
    { unimplemented!() }
    #[verifier::external_body]
    pub fn memchr2(a: u8, b: u8, h: &[u8]) -> (r: Option<usize>)
        ensures match r { Some(i) => i < h@.len() && (h@[i as int] == a || h@[i as int] == b) && no_byte2(h@, i as int, a, b), None => no_byte2(h@, h@.len() as int, a, b) }
    { unimplemented!() }
    #[verifier::external_body]
    pub fn memchr3(a: u8, b: u8, c: u8, h: &[u8]) -> (r: Option<usize>)
        ensures match r { Some(i) => i < h@.len() && (h@[i as int] == a || h@[i as int] == b || h@[i as int] == c) && no_byte3(h@, i as int, a, b, c), None => no_byte3(h@, h@.len() as int, a, b, c) }
    { unimplemented!() }
    pub mod memmem {
        use vstd::prelude::*;
        use super::super::*;
        #[verifier::external_body]
        pub fn find(h: &[u8], n: &[u8]) -> (r: Option<usize>)
            ensures match r {
                Some(i) => i + n@.len() <= h@.len() && matches_at(h@, i as int, n@) && (n@.len() > 0 ==> h@[i + n@.len() - 1] == n@[n@.len() - 1]) && (forall|k: int| 0 <= k < i ==> !matches_at(h@, k, n@))
                           && (n@.len() == 2 ==> pair_at(h@, i as int, n@[0], n@[1]) && no_pair(h@, i as int, n@[0], n@[1])),
                None => (forall|k: int| !matches_at(h@, k, n@)) && (n@.len() == 2 ==> no_pair(h@, h@.len() as int, n@[0], n@[1])) }
        { unimplemented!() }
    }
}
'''

PRO = '    proof { lemma_tok(&args); }'
PROALL = '    proof { lemma_tok(&args); lemma_all_ascii_boundaries(args.input.spec_bytes()); }'

# D13: a struct pattern in parameter position is re-bound by a leading `let` (Verus takes plain identifiers only)
def d13(pattern):
    return (pattern + ': LexArgs,', 'args: LexArgs,', 'D13')
# D14: byte-string literal re-emitted as an array literal (Verus knows only the length of a byte-string literal)
D14_STAR_PAREN = ('b"*)"', "&[b'*', b')']", 'D14')
# D15: contract spliced onto a closure (`|o| E` => `|o| -> (q: usize) requires E <= usize::MAX ensures q == E { E }`, E verbatim)
D15_MAP = (re.compile(r'\.map\(\|o\| ([^(){}|]+?)\)'), r'.map(|o| -> (q: usize) requires \1 <= usize::MAX ensures q == \1 { \1 })', 'D15')



def two_char(byte, kind2):
    return '(has(&args, 0) && byte_at(&args, 0) == %s) ==> r == (((args.offset + 1) as usize, %s))' % (byte, kind2)


def build(u):
    u.raw('use vstd::prelude::*;\nverus! {\n')
    L.lang_module(u)
    L.lexer_prelude(u)
    u.raw(OPSPEC)
    u.raw(CMTSPEC)

    # LexArgs methods
    u.raw("impl LexArgs<'_, '_> {\n")
    W = r"^impl LexArgs<'_, '_> \{"
    u.fn(LEX, r'^    fn consume\(self, bytes: usize\)', name='LexArgs::consume', within_re=W,
         requires=['self.offset + bytes <= usize::MAX'],
         ensures=['r.offset == self.offset + bytes', 'r.input == self.input'])
    u.fn(LEX, r'^    fn next_byte\(&self\)', name='LexArgs::next_byte', within_re=W,
         ensures=['self.offset < self.input.spec_bytes().len() ==> r == Some(&self.input.spec_bytes()[self.offset as int])',
                  'self.offset >= self.input.spec_bytes().len() ==> r.is_none()'])
    u.stub(LEX, r'^    fn prev_byte\(&self\)', name='LexArgs::prev_byte', within_re=W, kx='lextable::prev_byte',
           ensures=['1 <= self.offset <= self.input.spec_bytes().len() ==> r == Some(&self.input.spec_bytes()[self.offset - 1])'])
    u.raw('}\n')

    gen = dict(requires=['at_tok(&args)'], opens_with=PRO)

    def opfn(name, first_byte, clauses):
        u.fn(LEX, r'^fn %s\(args: LexArgs\)' % name, name=name,
             requires=['at_tok(&args)', 'first(&args) == %s' % first_byte],
             ensures=['sub_ok(&args, r)'] + clauses, opens_with=PRO)

    opfn('colon', '0x3a', [
        two_char('0x3d', 'TT::Op(OK::Assign)'),
        '!(has(&args, 0) && byte_at(&args, 0) == 0x3d) ==> r == ((args.offset, TT::Op(OK::Colon)))'])
    opfn('l_angle', '0x3c', [
        two_char('0x3d', 'TT::Op(OK::LessEqual)'),
        two_char('0x3e', 'TT::Op(OK::NotEqual)'),
        '!(has(&args, 0) && (byte_at(&args, 0) == 0x3d || byte_at(&args, 0) == 0x3e)) ==> r == ((args.offset, TT::Op(OK::LessThan(ChevronKind::Comp))))'])
    opfn('r_angle', '0x3e', [
        two_char('0x3d', 'TT::Op(OK::GreaterEqual)'),
        '!(has(&args, 0) && byte_at(&args, 0) == 0x3d) ==> r == ((args.offset, TT::Op(OK::GreaterThan(ChevronKind::Comp))))'])
    opfn('dot', '0x2e', [
        two_char('0x2e', 'TT::Op(OK::DotDot)'),
        two_char('0x29', 'TT::Op(OK::RBrack)'),
        '!(has(&args, 0) && (byte_at(&args, 0) == 0x2e || byte_at(&args, 0) == 0x29)) ==> r == ((args.offset, TT::Op(OK::Dot)))'])

    # D3: basic_op! instances, expanded from the macro_rules! body in the source
    src = u.src(LEX)
    m = re.search(r'macro_rules! basic_op \{\n\s*\(\$name: ident, \$typ: expr\) => \{\n(.*?)\n    \};\n\}', src, re.S)
    if not m:
        raise __import__('vxgen').LostAnchor('macro_rules! basic_op not found in the expected shape')
    template = m.group(1)
    first_bytes = {'plus': '0x2b', 'minus': '0x2d', 'star': '0x2a', 'comma': '0x2c', 'semicolon': '0x3b', 'equal': '0x3d',
                   'caret': '0x5e', 'address_of': '0x40', 'l_brack': '0x5b', 'r_brack': '0x5d', 'r_paren': '0x29'}
    insts = re.findall(r'^basic_op!\((\w+), (.*)\);$', src, re.M)
    if len(insts) != 11:
        raise __import__('vxgen').LostAnchor('expected 11 basic_op! instances, found %d' % len(insts))
    for name, typ in insts:
        text = template.replace('$name', name).replace('$typ', typ)
        text = '\n'.join(l[8:] if l.startswith('        ') else l for l in text.split('\n'))
        i = text.index('{')
        line = src[:src.index('basic_op!(%s,' % name)].count('\n') + 1
        if name not in first_bytes:
            raise __import__('vxgen').LostAnchor('unknown basic_op %s' % name)
        u.fn(LEX, None, name=name, synth=(text[:i], text[i:], line, 'basic_op!(%s, %s) expanded from the macro_rules! body in the source' % (name, typ)),
             requires=['at_tok(&args)', 'first(&args) == %s' % first_bytes[name]],
             ensures=['sub_ok(&args, r)', 'r == ((args.offset, RawTokenType::Op(%s)))' % typ], opens_with=PRO)

    # assumed callees (looping scanners; discharged by KX lexcomplex / lexscan)
    def assumed(name, header, kx, extra_req=None, ens=None, edits=None):
        u.stub(LEX, header, name=name, kx=kx, edits=edits,
               requires=['at_tok(&args)'] + (extra_req or []), ensures=['sub_ok(&args, r)'] + (ens or []))
    # D13 as a rewrite over header + body (vxgen joins them with \x00; the body starts with `{`)
    D13 = (re.compile(r'(LexArgs \{[^}]*\}): LexArgs,?(\s*(?:\w+: [\w<>]+,\s*)*\)[^\x00]*\x00\{)'), r'args: LexArgs,\2\n    let \1 = args;', 'D13')
    u.assume('D13: a struct pattern in parameter position (`LexArgs { input, offset, .. }: LexArgs`) is emitted as `args: LexArgs` plus a leading `let LexArgs { .. } = args;` (same bindings; Verus takes plain identifier parameters only)')
    u.assume('D14: the byte-string literal b"*)" is emitted as the array literal &[b\'*\', b\')\'] (same value; Verus knows only the length of a byte-string literal)')
    u.assume('D15: closures passed to Option::map get a spliced contract `requires E <= usize::MAX ensures q == E` around their verbatim body expression E (the overflow obligation of E stays an obligation of the enclosing function)')
    u.assume('ASSUMED dependency contracts: memchr::{memchr, memchr2, memchr3} return the index of the first byte equal to one of the needles, memchr::memmem::find the index of the first occurrence of the needle, None when there is none (documented behaviour of the memchr crate; the Kani harnesses of lexcomplex run against a byte-loop shim with this behaviour, the NX stand-ins against the real crate)')
    # consume_to_eof: unterminated comment / directive runs to the end of the text minus trailing blanks
    u.stub(LEX, r'^fn consume_to_eof\(input: &str, token_type: RawTokenType\)', name='consume_to_eof', kx='lexcomplex::block_comment_unterminated',
           ensures=['r.0 <= input.spec_bytes().len()', 'is_char_boundary(input.spec_bytes(), r.0 as int)', 'r.1 == token_type',
                    # trailing blanks only: an ASCII non-blank byte is never trimmed
                    'forall|p: int| 0 <= p < input.spec_bytes().len() && 0x20 < #[trigger] input.spec_bytes()[p] < 0x80 ==> p < r.0'])
    u.item(LEX, r'^enum BlockCommentKind \{', prefix='#[derive(Eq, PartialEq, Copy, Clone)]\n', name='enum BlockCommentKind')
    u.fn(LEX, r'^fn block_comment_kind\(nl_before: bool, nl_inside: bool\)', name='block_comment_kind',
         ensures=['nl_inside ==> r == CommentKind::MultilineBlock',
                  '!nl_inside && nl_before ==> r == CommentKind::IndividualBlock',
                  '!nl_inside && !nl_before ==> r == CommentKind::InlineBlock'])
    # the closer of a block comment is the FIRST `}` resp. `*)` at or after the offset
    u.fn(LEX, r'^fn find_block_comment_end\(', name='find_block_comment_end', edits=[D13, D14_STAR_PAREN, D15_MAP],
         requires=['args.offset <= blen(&args)', 'blen(&args) <= isize::MAX'],
         ensures=['kind == BlockCommentKind::Brace ==> match r {'
                  ' Some(e) => args.offset < e <= blen(&args) && args.input.spec_bytes()[e - 1] == 0x7d && tail(&args)[e - args.offset - 1] == 0x7d && no_byte(tail(&args), e - args.offset - 1, 0x7d),'
                  ' None => no_byte(tail(&args), blen(&args) - args.offset, 0x7d) }',
                  'kind == BlockCommentKind::ParenStar ==> match r {'
                  ' Some(e) => args.offset + 2 <= e <= blen(&args) && args.input.spec_bytes()[e - 2] == 0x2a && args.input.spec_bytes()[e - 1] == 0x29'
                  '  && pair_at(tail(&args), e - args.offset - 2, 0x2a, 0x29) && no_pair(tail(&args), e - args.offset - 2, 0x2a, 0x29),'
                  ' None => no_pair(tail(&args), blen(&args) - args.offset, 0x2a, 0x29) }',
                  '*final(args.lex_state) == *old(args.lex_state)'])
    # kind of a terminated block comment; an unterminated one runs to the end of the text
    u.fn(LEX, r'^fn _block_comment\(', name='_block_comment', edits=[D13],
         requires=['1 <= args.offset <= blen(&args)', 'blen(&args) <= isize::MAX', 'start_len <= args.offset',
                   '0x20 < first(&args) < 0x80',
                   # the text quoted by the warning starts at the opener, which has to be a character boundary
                   'is_char_boundary(args.input.spec_bytes(), args.offset - start_len)',
                   'match end_offset { Some(e) => args.offset <= e <= blen(&args) && is_char_boundary(args.input.spec_bytes(), e as int), None => true }'],
         ensures=['sub_ok(&args, r)',
                  'match end_offset {'
                  ' Some(e) => r.0 == e && r.1 == TT::Comment(spec_block_kind(nl_before(&args, old(args.lex_state).is_first),'
                  ' !no_byte(args.input.spec_bytes().subrange(args.offset as int, e as int), e - args.offset, 0x0a))),'
                  ' None => r.1 == TT::Comment(CommentKind::MultilineBlock) }',
                  '*final(args.lex_state) == *old(args.lex_state)'],
         opens_with='    proof { lemma_str_valid(args.input); }')
    # lex_args_copy!(args) expanded from the macro_rules! body in the source (D3)
    mcopy = re.search(r'macro_rules! lex_args_copy \{\n\s*\(\$args: ident\) => \{\n(.*?)\n    \};\n\}', u.src(LEX), re.S)
    if not mcopy:
        raise vxgen.LostAnchor('macro_rules! lex_args_copy not found in the expected shape')
    copy_text = ' '.join(mcopy.group(1).replace('$args', 'args').split())
    D3_COPY = ('lex_args_copy!(args)', copy_text, 'D3')
    u.assume('D3: lex_args_copy!(args) expanded from the macro_rules! body found in the source')
    for nm, fb, kind_, sl in (('block_comment_alt', '0x2a', 'ParenStar', 2), ('block_comment', '0x7b', 'Brace', 1)):
        clause = ('no_pair(tail(&args), r.0 - args.offset - 2, 0x2a, 0x29)' if kind_ == 'ParenStar' else 'no_byte(tail(&args), r.0 - args.offset - 1, 0x7d)')
        closer = ('r.0 >= args.offset + 2 && args.input.spec_bytes()[r.0 - 2] == 0x2a && args.input.spec_bytes()[r.0 - 1] == 0x29 && pair_at(tail(&args), r.0 - args.offset - 2, 0x2a, 0x29)' if kind_ == 'ParenStar'
                  else 'r.0 > args.offset && args.input.spec_bytes()[r.0 - 1] == 0x7d')
        none_ = ('no_pair(tail(&args), blen(&args) - args.offset, 0x2a, 0x29)' if kind_ == 'ParenStar' else 'no_byte(tail(&args), blen(&args) - args.offset, 0x7d)')
        u.fn(LEX, r'^fn %s\(args: LexArgs\)' % nm, name=nm, edits=[D3_COPY],
             requires=['at_tok(&args)', 'first(&args) == %s' % fb, 'args.offset >= %d' % sl] + (['args.input.spec_bytes()[args.offset - 2] == 0x28'] if sl == 2 else []),
             ensures=['sub_ok(&args, r)', 'r.1 is Comment',
                      # terminated: ends directly after the first closer; the kind says whether it holds a line feed / starts its line
                      '!(%s) ==> %s && %s' % (none_, closer, clause),
                      '!(%s) ==> r.1 == TT::Comment(spec_block_kind(nl_before(&args, old(args.lex_state).is_first),'
                      ' !no_byte(args.input.spec_bytes().subrange(args.offset as int, r.0 as int), r.0 - args.offset, 0x0a)))' % none_,
                      '(%s) ==> r.1 == TT::Comment(CommentKind::MultilineBlock)' % none_,
                      '*final(args.lex_state) == *old(args.lex_state)'],
             opens_with=PROALL)
    # a line comment runs up to (not including) the first LF or CR, or to the end of the text
    u.stub_call = None
    u.raw("""
// D11 call-site stub: `input[..offset].contains(['\\n', '\\r'])` (str slicing + char-array pattern are outside the subset).
// ASSUMED: true iff some byte before `offset` is LF or CR; the dropped slicing needs a character boundary at `offset`.
#[verifier::external_body]
fn head_contains_line_break(input: &str, offset: usize) -> (r: bool)
    requires offset <= input.spec_bytes().len(), is_char_boundary(input.spec_bytes(), offset as int)
    ensures r == !no_byte2(input.spec_bytes().subrange(0, offset as int), offset as int, 0x0a, 0x0d)
{ unimplemented!() }
""")
    u.fn(LEX, r'^fn line_comment\(', name='line_comment',
         edits=[D13, ("input[..offset].contains(['\\n', '\\r'])", 'head_contains_line_break(input, offset)', 'D11'),
                D15_MAP, ('.unwrap_or(input.len())', '.unwrap_or(input.as_bytes().len())', 'D5')],
         requires=['at_tok(&args)'],
         ensures=['sub_ok(&args, r)',
                  'no_byte2(tail(&args), r.0 - args.offset, 0x0a, 0x0d)',
                  'r.0 == blen(&args) || args.input.spec_bytes()[r.0 as int] == 0x0a || args.input.spec_bytes()[r.0 as int] == 0x0d',
                  'r.1 == TT::Comment(if nl_before(&args, old(args.lex_state).is_first) { CommentKind::IndividualLine } else { CommentKind::InlineLine })',
                  '*final(args.lex_state) == *old(args.lex_state)'],
         opens_with=PROALL)
    u.stub(LEX, r'^fn compiler_directive\(args: LexArgs, kind: BlockCommentKind\)', name='compiler_directive', kx='lexcomplex::compiler_directive',
           requires=['at_tok(&args)'], ensures=['sub_ok(&args, r)'])

    for nm, extra in (('compiler_directive_or_comment_alt', ['first(&args) == 0x2a', 'args.offset >= 2', 'args.input.spec_bytes()[args.offset - 2] == 0x28']), ('compiler_directive_or_comment', ['first(&args) == 0x7b'])):
        u.fn(LEX, r'^fn %s\(args: LexArgs\)' % nm, name=nm, requires=['at_tok(&args)'] + extra, ensures=['sub_ok(&args, r)'], opens_with=PRO)
    opfn('l_paren', '0x28', [
        two_char('0x2e', 'TT::Op(OK::LBrack)'),
        '!(has(&args, 0) && (byte_at(&args, 0) == 0x2e || byte_at(&args, 0) == 0x2a)) ==> r == ((args.offset, TT::Op(OK::LParen)))'])
    opfn('l_brace', '0x7b', [])
    opfn('slash', '0x2f', [
        '!(has(&args, 0) && byte_at(&args, 0) == 0x2f) ==> r == ((args.offset, TT::Op(OK::Slash)))'])

    # number scanners: exact extent = maximal digit run
    for nm, cls in (('count_decimal', 'is_dec_digit'), ('count_hex', 'is_hex_digit'), ('count_binary', 'is_bin_digit')):
        u.stub(LEX, r'^fn %s\(input: &str, offset: usize\)' % nm, name=nm, kx='lexscan::' + nm,
               requires=['offset <= input.spec_bytes().len()'],
               ensures=['r == run_of(input.spec_bytes(), offset as int, |b: u8| %s(b))' % cls])
    RUNPRO = lambda cls: (PRO + '\n    proof { lemma_run_of_bound(args.input.spec_bytes(), args.offset as int, |b: u8| %s(b));\n'
                          '        lemma_ascii_run_boundary(args.input.spec_bytes(), args.offset as int, |b: u8| %s(b)); }' % (cls, cls))
    u.fn(LEX, r'^fn hex_number_literal\(args: LexArgs\)', name='hex_number_literal',
         requires=['at_tok(&args)'],
         ensures=['sub_ok(&args, r)',
                  'r.0 == args.offset + run_of(args.input.spec_bytes(), args.offset as int, |b: u8| is_hex_digit(b))',
                  'r.1 == TT::NumberLiteral(NLK::Hex)'],
         opens_with=RUNPRO('is_hex_digit'))
    u.fn(LEX, r'^fn binary_number_literal\(args: LexArgs\)', name='binary_number_literal',
         requires=['at_tok(&args)'],
         ensures=['sub_ok(&args, r)',
                  'r.0 == args.offset + run_of(args.input.spec_bytes(), args.offset as int, |b: u8| is_bin_digit(b))',
                  'r.1 == TT::NumberLiteral(NLK::Binary)'],
         opens_with=RUNPRO('is_bin_digit'))
    u.fn(LEX, r'^fn count_full_decimal\(input: &str, offset: usize\)', name='count_full_decimal',
         requires=['offset <= input.spec_bytes().len()'],
         ensures=['(offset < input.spec_bytes().len() && input.spec_bytes()[offset as int] == 0x5f) ==> r == 0',
                  '!(offset < input.spec_bytes().len() && input.spec_bytes()[offset as int] == 0x5f) ==> r == run_of(input.spec_bytes(), offset as int, |b: u8| is_dec_digit(b))'])
    u.fn(LEX, r'^fn asm_number_literal\(mut args: LexArgs\)', name='asm_number_literal',
         requires=['at_tok(&args)'],
         ensures=['sub_ok(&args, r)',
                  'r.0 >= args.offset + run_of(args.input.spec_bytes(), args.offset as int, |b: u8| is_hex_digit(b))',
                  'r.0 <= args.offset + run_of(args.input.spec_bytes(), args.offset as int, |b: u8| is_hex_digit(b)) + 1',
                  'r.1 is NumberLiteral'],
         opens_with=RUNPRO('is_hex_digit') + '\n    let ghost a0 = args.offset; let ghost bs = args.input.spec_bytes();',
         hints=[{'at': 'match args.next_byte()', 'where': 'before',
                 'text': '    proof { if args.offset < bs.len() && bs[args.offset as int] < 0x80 { lemma_ascii_boundaries(bs, args.offset as int); } }'}])
    # decimal literal: digits [. digits] [e|E [+|-] digits]; a fraction / exponent digit run cannot start with '_'
    u.raw('''
spec fn dec_run(s: Seq<u8>, o: int) -> int { run_of(s, o, |b: u8| is_dec_digit(b)) }
spec fn full_dec_run(s: Seq<u8>, o: int) -> int { if 0 <= o < s.len() && s[o] == 0x5f { 0 } else { dec_run(s, o) } }
spec fn dec_after_int(s: Seq<u8>, o: int) -> int { o + dec_run(s, o) }
spec fn dec_after_frac(s: Seq<u8>, a: int) -> int {
    if 0 <= a < s.len() && s[a] == 0x2e && full_dec_run(s, a + 1) > 0 { a + 1 + full_dec_run(s, a + 1) } else { a }
}
spec fn dec_after_exp(s: Seq<u8>, b: int) -> int {
    if 0 <= b < s.len() && (s[b] == 0x65 || s[b] == 0x45) {
        let c = if b + 1 < s.len() && (s[b + 1] == 0x2b || s[b + 1] == 0x2d) { b + 2 } else { b + 1 };
        c + full_dec_run(s, c)
    } else { b }
}
spec fn dec_end(s: Seq<u8>, o: int) -> int { dec_after_exp(s, dec_after_frac(s, dec_after_int(s, o))) }
proof fn lemma_dec_step(s: Seq<u8>, o: int)
    requires valid_utf8(s), 0 <= o <= s.len(), is_char_boundary(s, o)
    ensures o <= o + dec_run(s, o) <= s.len(), is_char_boundary(s, o + dec_run(s, o)),
            o <= o + full_dec_run(s, o) <= s.len(), is_char_boundary(s, o + full_dec_run(s, o))
{
    lemma_run_of_bound(s, o, |b: u8| is_dec_digit(b));
    lemma_ascii_run_boundary(s, o, |b: u8| is_dec_digit(b));
}
''')
    u.fn(LEX, r'^fn dec_number_literal\(mut args: LexArgs\)', name='dec_number_literal',
         edits=[vxgen.D8_REFPAT],
         requires=['at_tok(&args)'],
         ensures=['sub_ok(&args, r)',
                  'r.0 == dec_end(args.input.spec_bytes(), args.offset as int)',
                  'r.1 == TT::NumberLiteral(NLK::Decimal)'],
         opens_with=PRO + '\n    let ghost bs = args.input.spec_bytes(); let ghost o0 = args.offset as int;\n    proof { lemma_dec_step(bs, o0); }',
         hints=[
             {'at': "if args.next_byte() == Some(&b'.')", 'where': 'before',
              'text': '    proof { if args.offset < bs.len() && bs[args.offset as int] == 0x2e { lemma_ascii_boundaries(bs, args.offset as int); lemma_dec_step(bs, args.offset + 1); } }'},
             {'at': "if matches!(args.next_byte(), Some(b'e' | b'E'))", 'where': 'before',
              'text': '    proof { assert(args.offset == dec_after_frac(bs, dec_after_int(bs, o0)));\n'
                      '        if args.offset < bs.len() && (bs[args.offset as int] == 0x65 || bs[args.offset as int] == 0x45) {\n'
                      '            lemma_ascii_boundaries(bs, args.offset as int);\n'
                      '            if args.offset + 1 < bs.len() && (bs[args.offset + 1] == 0x2b || bs[args.offset + 1] == 0x2d) { lemma_ascii_boundaries(bs, args.offset + 1); lemma_dec_step(bs, args.offset + 2); }\n'
                      '            lemma_dec_step(bs, args.offset + 1);\n'
                      '        } }'},
         ])
    u.assume('D8: reference patterns `Some(&b\'e\' | b\'E\')` on Option<&u8> rewritten to `Some(b\'e\' | b\'E\')` (default binding modes: same match semantics); Verus rejects the mixed form')
    # asm string literal "..." with backslash escapes; ends at the closing quote, or before a line break / at the end
    # warn_unterminated slices `&input[start_offset..]`: the slice panics unless start_offset is a character boundary inside the text
    u.stub(LEX, r'^fn warn_unterminated\(', name='warn_unterminated',
           requires=['start_offset <= input.spec_bytes().len()', 'is_char_boundary(input.spec_bytes(), start_offset as int)'])
    u.fn(LEX, r'^fn asm_text_literal\(mut args: LexArgs\)', name='asm_text_literal', rebind_mut=('args', 'args0'),
         requires=['at_tok(&args0)'],
         ensures=['sub_ok(&args0, r)',
                  'r.1 == TT::TextLiteral(TLK::Asm) || r.1 == TT::TextLiteral(TLK::Unterminated)',
                  'r.1 == TT::TextLiteral(TLK::Asm) ==> r.0 > args0.offset && args0.input.spec_bytes()[r.0 - 1] == 0x22',
                  'r.1 == TT::TextLiteral(TLK::Unterminated) ==> r.0 == blen(&args0) || args0.input.spec_bytes()[r.0 as int] == 0x0a || args0.input.spec_bytes()[r.0 as int] == 0x0d',
                  # a line break inside the literal can only directly follow a backslash
                  'forall|i: int| args0.offset <= i < r.0 && (#[trigger] args0.input.spec_bytes()[i] == 0x0a || args0.input.spec_bytes()[i] == 0x0d) ==> i > args0.offset && args0.input.spec_bytes()[i - 1] == 0x5c'],
         opens_with='    proof { lemma_tok(&args0); }\n    let ghost bs = args0.input.spec_bytes();',
         loops=[{'keyword': 'loop',
                 'invariant': ['args.input == args0.input', 'bs == args0.input.spec_bytes()', 'valid_utf8(bs)', 'args0.offset <= args.offset <= bs.len()', 'bs.len() <= isize::MAX',
                               'forall|i: int| args0.offset <= i < args.offset && (#[trigger] bs[i] == 0x0a || bs[i] == 0x0d) ==> i > args0.offset && bs[i - 1] == 0x5c'],
                 'ensures': ['args.offset == bs.len() || bs[args.offset as int] == 0x0a || bs[args.offset as int] == 0x0d'],
                 'decreases': 'bs.len() - args.offset'}],
         hints=[{'at': 'return (args.offset + 1, TT::TextLiteral(TLK::Asm));', 'where': 'before',
                 'text': '                proof { lemma_ascii_boundaries(bs, args.offset as int); }'},
                {'at': 'warn_unterminated("asm text literal"', 'where': 'before',
                 'text': '    proof { if args.offset < bs.len() { lemma_ascii_boundaries(bs, args.offset as int); } else { is_char_boundary_start_end_of_seq(bs); } }'}])

    # ---- the two helpers of text_literal (nested functions, extracted from inside it) ----
    TL = r'^fn text_literal\('
    u.item(LEX, r'^    enum ParseState \{', within_re=TL, name='enum ParseState (nested in text_literal)')
    QS = 'input.spec_bytes().subrange(*old(offset) + 1, input.spec_bytes().len() as int)'
    u.fn(LEX, r'^    fn consume_pascal_str\(input: &str, offset: &mut usize\)', name='consume_pascal_str', within_re=TL,
         requires=['*old(offset) <= input.spec_bytes().len()', 'input.spec_bytes().len() <= isize::MAX'],
         ensures=['*old(offset) <= *final(offset) <= input.spec_bytes().len()',
                  # not at a quote: nothing consumed
                  '!(*old(offset) < input.spec_bytes().len() && input.spec_bytes()[*old(offset) as int] == 0x27) ==> r is Stop && *final(offset) == *old(offset)',
                  '(*old(offset) < input.spec_bytes().len() && input.spec_bytes()[*old(offset) as int] == 0x27) ==> !(r is Stop) && *final(offset) > *old(offset)',
                  # closed: ends directly after the FIRST quote after the opening one, no line break in between
                  'r is Continue ==> *final(offset) >= *old(offset) + 2 && input.spec_bytes()[*final(offset) - 1] == 0x27 && no_byte3(%s, *final(offset) - *old(offset) - 2, 0x27, 0x0a, 0x0d)' % QS,
                  # unterminated: stops before the first line break, or at the end of the text; no quote before that
                  'r is Unterminated ==> (*final(offset) == input.spec_bytes().len() || input.spec_bytes()[*final(offset) as int] == 0x0a || input.spec_bytes()[*final(offset) as int] == 0x0d)'
                  ' && no_byte3(%s, *final(offset) - *old(offset) - 1, 0x27, 0x0a, 0x0d)' % QS,
                  # in absolute positions: nothing consumed after the opening quote is a line break
                  'forall|i: int| *old(offset) < i < *final(offset) ==> #[trigger] input.spec_bytes()[i] != 0x0a && input.spec_bytes()[i] != 0x0d'],
         opens_with='    let ghost o0 = *offset;',
         hints=[{'at': '*offset += pos;', 'where': 'after',
                 'text': '            proof { lemma_no_byte3_abs(input.spec_bytes(), o0 + 1, pos as int, 0x27, 0x0a, 0x0d); }'},
                {'at': '*offset = bytes.len();', 'where': 'after',
                 'text': '        proof { lemma_no_byte3_abs(input.spec_bytes(), o0 + 1, input.spec_bytes().len() - o0 - 1, 0x27, 0x0a, 0x0d); }'}])
    RUNH = lambda cls: '            proof { lemma_run_of_all(input.spec_bytes(), *offset as int, |b: u8| %s(b)); }' % cls
    u.fn(LEX, r'^    fn consume_escaped_chars\(input: &str, offset: &mut usize\)', name='consume_escaped_chars', within_re=TL,
         requires=['*old(offset) <= input.spec_bytes().len()', 'input.spec_bytes().len() <= isize::MAX'],
         ensures=['*old(offset) <= *final(offset) <= input.spec_bytes().len()',
                  '!(r is Stop)',
                  # only escape bytes are consumed: no quote, no line break, nothing non-ASCII
                  'forall|i: int| *old(offset) <= i < *final(offset) ==> esc_byte(#[trigger] input.spec_bytes()[i])',
                  'r is Continue ==> *final(offset) == input.spec_bytes().len() || input.spec_bytes()[*final(offset) as int] != 0x23',
                  # not at a `#`: nothing consumed; at a `#`: at least that byte
                  '!(*old(offset) < input.spec_bytes().len() && input.spec_bytes()[*old(offset) as int] == 0x23) ==> r is Continue && *final(offset) == *old(offset)',
                  '(*old(offset) < input.spec_bytes().len() && input.spec_bytes()[*old(offset) as int] == 0x23) ==> *final(offset) > *old(offset)',
                  '*final(offset) > *old(offset) ==> esc_byte(input.spec_bytes()[*final(offset) - 1])',
                  # a `#` / `#$` / `#%` without a digit ends the literal as unterminated, directly after that byte
                  'r is Unterminated ==> *final(offset) > *old(offset) && (input.spec_bytes()[*final(offset) - 1] == 0x23 || input.spec_bytes()[*final(offset) - 1] == 0x24 || input.spec_bytes()[*final(offset) - 1] == 0x25)'],
         opens_with='    let ghost o0 = *offset;',
         loops=[{'keyword': 'loop',
                 'invariant': ['o0 == *old(offset)', 'o0 <= *offset <= input.spec_bytes().len()', 'input.spec_bytes().len() <= isize::MAX', '*offset == o0 || (o0 < input.spec_bytes().len() && input.spec_bytes()[o0 as int] == 0x23)',
                               'forall|i: int| o0 <= i < *offset ==> esc_byte(#[trigger] input.spec_bytes()[i])'],
                 'decreases': 'input.spec_bytes().len() - *offset'}],
         hints=[{'at': '*offset += count_decimal(input, *offset);', 'where': 'before', 'text': RUNH('is_dec_digit')},
                {'at': 'match count_hex(input, *offset) {', 'where': 'before', 'text': RUNH('is_hex_digit')},
                {'at': 'match count_binary(input, *offset) {', 'where': 'before', 'text': RUNH('is_bin_digit')}])

    # ---- text_literal itself: single-line literals, multi-line literals (odd quote run + line break), escaped characters ----
    u.raw("""
// D11 call-site stub: `input.bytes().skip(offset).take_while(|b| b == &b'\\'').count()` (iterator adapters are outside the subset).
// ASSUMED: the length of the maximal run of quote bytes from `offset`.
#[verifier::external_body]
fn count_quotes(input: &str, offset: usize) -> (r: usize)
    requires offset <= input.spec_bytes().len()
    ensures r == run_of(input.spec_bytes(), offset as int, |b: u8| b == 0x27)
{ unimplemented!() }
spec fn quote_run(a: &LexArgs) -> int { run_of(a.input.spec_bytes(), a.offset - 1, |b: u8| b == 0x27) }
// a multi-line literal opens with an odd number (>= 3) of quotes directly followed by a line break
spec fn opens_multiline(a: &LexArgs) -> bool {
    quote_run(a) >= 3 && quote_run(a) % 2 == 1 && a.offset - 1 + quote_run(a) < blen(a)
    && (a.input.spec_bytes()[a.offset - 1 + quote_run(a)] == 0x0a || a.input.spec_bytes()[a.offset - 1 + quote_run(a)] == 0x0d)
}
""")
    D16 = (re.compile(r'\n    enum ParseState \{.*?\n    \}\n\n    fn consume_pascal_str.*?\n    \}\n\n    fn consume_escaped_chars.*?\n    \}\n', re.S), '\n', 'D16')
    u.assume('D16: the items nested in text_literal (enum ParseState, fn consume_pascal_str, fn consume_escaped_chars) are emitted at module level, each verified under its own contract, and removed from the body of text_literal (same items, same names; nothing in them captures from the enclosing function)')
    u.fn(LEX, r'^fn text_literal\(', name='text_literal',
         edits=[D13, D16,
                (re.compile(r"input\s*\.bytes\(\)\s*\.skip\(offset\)\s*\.take_while\(\|b\| b == &b'\\''\)\s*\.count\(\)"), 'count_quotes(input, offset)', 'D11'),
                ('let unterminated = |offset: usize| {', 'let unterminated = |offset: usize| -> (q: OffsetAndTokenType) ensures q == ((offset, TT::TextLiteral(TLK::Unterminated))) {', 'D15'),
                (re.compile(r'\.map\(\|pos\| \{\s*\(\s*([^()]+?),\s*(TT::TextLiteral\(TLK::MultiLine\)),\s*\)\s*\}\)'),
                 r'.map(|pos| -> (q: OffsetAndTokenType) requires \1 <= usize::MAX ensures q == ((((\1) as usize), \2)) { (\1, \2) })', 'D15'),
                ('.unwrap_or_else(|| unterminated(input.len()))', '.unwrap_or_else(|| -> (q: OffsetAndTokenType) ensures q.0 == input.spec_bytes().len(), q.1 == TT::TextLiteral(TLK::Unterminated) { unterminated(input.as_bytes().len()) })', 'D15')],
         requires=['at_tok(&args)', 'first(&args) == 0x27 || first(&args) == 0x23'],
         ensures=['sub_ok(&args, r)', 'r.1 is TextLiteral',
                  # multi-line: ends directly after a later occurrence of the opening quote run, or runs to the end of the text
                  'opens_multiline(&args) ==> r.1 == TT::TextLiteral(TLK::MultiLine) || (r.1 == TT::TextLiteral(TLK::Unterminated) && r.0 == blen(&args))',
                  '!opens_multiline(&args) ==> r.1 == TT::TextLiteral(TLK::SingleLine) || r.1 == TT::TextLiteral(TLK::Unterminated)',
                  # a single-line literal never contains a line break
                  '!opens_multiline(&args) ==> forall|i: int| args.offset - 1 <= i < r.0 ==> #[trigger] args.input.spec_bytes()[i] != 0x0a && args.input.spec_bytes()[i] != 0x0d',
                  '*final(args.lex_state) == *old(args.lex_state)'],
         opens_with=PROALL + '\n    let ghost bs = args.input.spec_bytes(); let ghost o0 = args.offset - 1;\n    proof { lemma_run_of_bound(bs, o0, |b: u8| b == 0x27); lemma_run_of_all(bs, o0, |b: u8| b == 0x27); }',
         loops=[{'keyword': 'loop',
                 'invariant': ['bs == input.spec_bytes()', 'valid_utf8(bs)', 'bs.len() <= isize::MAX', 'o0 <= offset <= bs.len()', 'is_char_boundary(bs, offset as int)',
                               'forall|i: int| o0 <= i < offset ==> #[trigger] bs[i] != 0x0a && bs[i] != 0x0d',
                               'ascii_bounds_ok(bs)', '0 <= o0 < bs.len()', 'bs[o0] == 0x27 || bs[o0] == 0x23', 'orig_offset == o0', 'bs == args.input.spec_bytes()', 'o0 == args.offset - 1', '!opens_multiline(&args)',
                               'forall|o: usize| #[trigger] unterminated.requires((o,))',
                               'forall|o: usize, q: OffsetAndTokenType| #[trigger] unterminated.ensures((o,), q) ==> q == ((o, TT::TextLiteral(TLK::Unterminated)))'],
                 'ensures': ['o0 < offset <= bs.len()', 'is_char_boundary(bs, offset as int)', 'forall|i: int| o0 <= i < offset ==> #[trigger] bs[i] != 0x0a && bs[i] != 0x0d'],
                 'decreases': 'bs.len() - offset'}])

    # identifier starting with a non-ASCII character: first advance to the end of that character
    u.stub(LEX, r'^fn identifier\(args: LexArgs\)', name='identifier', kx='lexscan::identifier_end',
           requires=['args.offset <= blen(&args)', 'is_char_boundary(args.input.spec_bytes(), args.offset as int)'],
           ensures=['sub_ok(&args, r)', 'r.1 == TT::Identifier'])
    u.fn(LEX, r'^fn unicode_identifier\(mut args: LexArgs\)', name='unicode_identifier', rebind_mut=('args', 'args0'),
         requires=['1 <= args0.offset <= blen(&args0)', 'blen(&args0) <= isize::MAX'],
         ensures=['args0.offset <= r.0 <= blen(&args0)', 'is_char_boundary(args0.input.spec_bytes(), r.0 as int)', 'r.1 == TT::Identifier'],
         opens_with='    let ghost bs = args0.input.spec_bytes();\n    proof { lemma_str_valid(args0.input); is_char_boundary_start_end_of_seq(bs); }',
         loops=[{'keyword': 'while',
                 'invariant': ['args.input == args0.input', 'bs == args0.input.spec_bytes()', 'valid_utf8(bs)', 'args0.offset <= args.offset <= bs.len()', 'bs.len() <= isize::MAX', 'is_char_boundary(bs, bs.len() as int)'],
                 'decreases': 'bs.len() - args.offset'}])
    # `&` prefix: &&name, &$FF, &%101, &123, or a lone `&` (Unknown)
    u.stub(LEX, r'^fn unknown\(args: LexArgs\)', name='unknown', kx='lextable::dispatch',
           requires=['args.offset >= 1', 'args.offset <= blen(&args)'], ensures=['r == ((args.offset, TT::Unknown))'])
    u.assume('unknown: kept as a stub because its only statement besides the result is a warn! whose argument `*args.prev_byte().unwrap()` rule D2 would drop together with its panic obligation; the stub keeps that obligation as `requires args.offset >= 1`')
    u.raw("""
// D11 call-site stub: `count_matching(args.input, args.offset, |b| *b == b'&')` (iterator adapters + closure argument are outside the subset).
// ASSUMED: the length of the maximal run of `&` bytes from `offset` (count_matching is bytes().skip().take_while().count()).
#[verifier::external_body]
fn count_ampersands(input: &str, offset: usize) -> (r: usize)
    requires offset <= input.spec_bytes().len()
    ensures r == run_of(input.spec_bytes(), offset as int, |b: u8| b == 0x26)
{ unimplemented!() }
spec fn amp_end(a: &LexArgs) -> int { a.offset + run_of(a.input.spec_bytes(), a.offset as int, |b: u8| b == 0x26) }
spec fn amp_next(a: &LexArgs) -> u8 { a.input.spec_bytes()[amp_end(a)] }
""")
    u.fn(LEX, r'^fn ampersand\(mut args: LexArgs\)', name='ampersand', rebind_mut=('args', 'args0'),
         edits=[("count_matching(args.input, args.offset, |b| *b == b'&')", 'count_ampersands(args.input, args.offset)', 'D11')],
         requires=['at_tok(&args0)', 'first(&args0) == 0x26'],
         ensures=['sub_ok(&args0, r)',
                  'amp_end(&args0) < blen(&args0) && amp_next(&args0) == 0x24 ==> r.1 == TT::NumberLiteral(NLK::Hex)',
                  'amp_end(&args0) < blen(&args0) && amp_next(&args0) == 0x25 ==> r.1 == TT::NumberLiteral(NLK::Binary)',
                  'amp_end(&args0) < blen(&args0) && 0x30 <= amp_next(&args0) <= 0x39 ==> r.1 == TT::NumberLiteral(NLK::Decimal)',
                  'amp_end(&args0) < blen(&args0) && (0x61 <= amp_next(&args0) <= 0x7a || 0x41 <= amp_next(&args0) <= 0x5a || amp_next(&args0) == 0x5f || amp_next(&args0) >= 0x80) ==> r.1 == TT::Identifier',
                  '!(amp_end(&args0) < blen(&args0) && (amp_next(&args0) == 0x24 || amp_next(&args0) == 0x25 || 0x30 <= amp_next(&args0) <= 0x39 || 0x61 <= amp_next(&args0) <= 0x7a'
                  ' || 0x41 <= amp_next(&args0) <= 0x5a || amp_next(&args0) == 0x5f || amp_next(&args0) >= 0x80)) ==> r == ((amp_end(&args0) as usize, TT::Unknown))'],
         opens_with='    proof { lemma_tok(&args0); lemma_all_ascii_boundaries(args0.input.spec_bytes());\n'
                    '        lemma_run_of_bound(args0.input.spec_bytes(), args0.offset as int, |b: u8| b == 0x26);\n'
                    '        lemma_ascii_run_boundary(args0.input.spec_bytes(), args0.offset as int, |b: u8| b == 0x26); }')

    # keyword hash: no index / overflow panic for any word of at most 14 bytes, result bounded
    u.item(LEX, r'^    const KEYWORD_ASSO_VALUES: \[u8; 256\]', const=True, name='const KEYWORD_ASSO_VALUES',
           within_re=r'^fn get_word_token_type\(input: &str\)')
    u.fn(LEX, r'^    const fn hash_keyword\(input: &str\)', name='hash_keyword', within_re=r'^fn get_word_token_type\(input: &str\)',
         requires=['input.spec_bytes().len() <= 14'],
         ensures=['r as int <= 14 + 4 * 255'])
    u.raw('}\n}\nfn main() {}\n')
