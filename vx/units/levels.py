"""U8b levels — the parser's nesting-level arithmetic (Verus).

get_context_level: level = clamp(sum of level deltas from the innermost context
outwards, stopping at (and including) the nearest context that has a parent).
NonEmptyVec<T> against view() = tail ++ [head].
"""
PARSER = 'core/src/defaults/parser.rs'
LANG = 'core/src/lang.rs'


def build(u):
    u.raw('use vstd::prelude::*;\nverus! {\n')
    u.raw('pub mod parser {\nuse vstd::prelude::*;\n')
    u.item(LANG, r'^pub struct LineParent \{', prefix='#[derive(Clone, Copy, PartialEq, Eq)]\n', name='struct LineParent')
    u.item(PARSER, r'^enum ParserContextLevel \{', prefix='#[derive(Copy, Clone, PartialEq)]\n', name='enum ParserContextLevel')
    # D6t: types the function under contract never inspects become opaque
    u.raw('#[verifier::external_body] pub struct ContextType { _p: () }\n#[verifier::external_body] pub struct ContextEndingPredicate { _p: () }\n')
    u.assume('ContextType / ContextEndingPredicate are emitted as opaque types: get_context_level reads only ParserContext::level')
    u.item(PARSER, r'^struct ParserContext \{', name='struct ParserContext')
    u.raw('''
spec fn ctx_sum(cs: Seq<ParserContext>) -> int
    decreases cs.len()
{
    if cs.len() == 0 { 0 } else {
        match cs.last().level {
            ParserContextLevel::Parent(_, d) => d as int,
            ParserContextLevel::Level(d) => d as int + ctx_sum(cs.drop_last()),
        }
    }
}
spec fn ctx_parent(cs: Seq<ParserContext>) -> Option<LineParent>
    decreases cs.len()
{
    if cs.len() == 0 { None } else {
        match cs.last().level {
            ParserContextLevel::Parent(p, _) => Some(p),
            ParserContextLevel::Level(_) => ctx_parent(cs.drop_last()),
        }
    }
}
pub open spec fn clamp16(x: int) -> int { if x < 0 { 0 } else if x > 65535 { 65535 } else { x } }
proof fn lemma_ctx_sum_bound(cs: Seq<ParserContext>)
    ensures -32768 * cs.len() <= ctx_sum(cs) <= 65535 + 32767 * cs.len()
    decreases cs.len()
{
    if cs.len() > 0 { lemma_ctx_sum_bound(cs.drop_last()); }
}
''')
    # D7: a method that reads only `self.context.contexts` is emitted as a free function over that field
    u.fn(PARSER, r'^    fn get_context_level\(&self\)', name='get_context_level',
         within_re=r"^impl<'a, 'b> InternalDelphiLogicalLineParser<'a, 'b> \{",
         edits=[('fn get_context_level(&self)', 'fn get_context_level(contexts: &Vec<ParserContext>)', 'D7'),
                ('self.context.contexts.iter().rev()', 'contexts.iter().rev()', 'D7')],
         requires=['contexts@.len() < 0x1_0000_0000_0000'],
         ensures=['r.1 as int == clamp16(ctx_sum(contexts@))', 'r.0 == ctx_parent(contexts@)'],
         opens_with='    let ghost cs = contexts@;\n    proof { assert(cs.subrange(0, cs.len() as int) =~= cs); }',
         loops=[{
             'keyword': 'for', 'iter_name': 'it',
             'invariant_except_break': [
                 'parent.is_none()',
                 '-32768 * it.index@ <= sum <= 32767 * it.index@',
                 'ctx_sum(cs) == sum + ctx_sum(cs.subrange(0, cs.len() - it.index@))',
                 'ctx_parent(cs) == ctx_parent(cs.subrange(0, cs.len() - it.index@))',
             ],
             'invariant': [
                 'cs == contexts@', 'cs.len() < 0x1_0000_0000_0000',
                 'it.history@.len() == it.index@', '0 <= it.index@ <= cs.len()',
                 'forall|j: int| 0 <= j < it.index@ ==> *it.history@[j] == cs[cs.len() - 1 - j]',
             ],
             'ensures': ['sum == ctx_sum(cs)', 'parent == ctx_parent(cs)'],
         }],
         hints=[{'at': 'match ctx.level {', 'where': 'before',
                 'text': '            proof {\n'
                         '                let pre = cs.subrange(0, cs.len() - it.index@);\n'
                         '                assert(*ctx == cs[cs.len() - 1 - it.index@]);\n'
                         '                assert(pre.last() == *ctx);\n'
                         '                assert(pre.drop_last() =~= cs.subrange(0, cs.len() - it.index@ - 1));\n'
                         '            }'}])
    # NonEmptyVec<T> against its abstract view
    u.item(PARSER, r'^struct NonEmptyVec<T> \{', name='struct NonEmptyVec')
    u.raw('''
impl<T> NonEmptyVec<T> {
    pub closed spec fn view(&self) -> Seq<T> { self.tail@.push(self.head) }
''')
    W = r'^impl<T> NonEmptyVec<T> \{'
    u.fn(PARSER, r'^    fn new\(head: T\)', name='NonEmptyVec::new', within_re=W, ensures=['r.view() =~= seq![head]'])
    u.fn(PARSER, r'^    fn pop\(&mut self\)', name='NonEmptyVec::pop', within_re=W,
         ensures=['old(self).view().len() >= 2 ==> r == Some(old(self).view().last()) && final(self).view() =~= old(self).view().drop_last()',
                  'old(self).view().len() == 1 ==> r.is_none() && final(self).view() =~= old(self).view()',
                  'final(self).view().len() >= 1'])
    u.fn(PARSER, r'^    fn push\(&mut self, t: T\)', name='NonEmptyVec::push', within_re=W,
         ensures=['final(self).view() =~= old(self).view().push(t)'])
    u.fn(PARSER, r'^    fn last\(&self\)', name='NonEmptyVec::last', within_re=W, ensures=['*r == self.view().last()'])
    u.fn(PARSER, r'^    fn len\(&self\)', name='NonEmptyVec::len', within_re=W,
         requires=['self.view().len() <= usize::MAX'], ensures=['r == self.view().len()', 'r >= 1'])
    u.fn(PARSER, r'^    fn get\(&self, index: usize\)', name='NonEmptyVec::get', within_re=W,
         ensures=['index < self.view().len() ==> r == Some(&self.view()[index as int])', 'index >= self.view().len() ==> r.is_none()'])
    u.raw('}\n')
    u.raw('}\nfn main() {}\n}\n')
