"""U8 wsarith — whitespace / level arithmetic of the wrapper and the parser (Verus).

LineWhitespace::{len, add, zero}; DecisionRequirement::map_can_break;
RawDecision::with_continuation; Decision::to_raw;
ReconstructionSettings::new (lengths of the three strings, for all u8 x u8).
"""
import re

import vxgen

TYPES = 'core/src/rules/optimising_line_formatter/types.rs'
LANG = 'core/src/lang.rs'
FRONT = 'front-end/src/lib.rs'


def build(u):
    u.raw('use vstd::prelude::*;\nuse vstd::string::*;\nuse vstd::utf8::*;\nverus! {\n')
    u.raw('''
// std: `str::repeat(n)` is n copies of the string (length n * len; every byte from the pattern)
pub assume_specification[ str::repeat ](s: &str, n: usize) -> (r: String)
    ensures
        encode_utf8(r@).len() == s.spec_bytes().len() * n,
        forall|i: int| 0 <= i < encode_utf8(r@).len() ==> #[trigger] encode_utf8(r@)[i] == s.spec_bytes()[i % (s.spec_bytes().len() as int)],
;
''')
    u.assume('assume_specification[str::repeat]: n copies of the pattern (std documentation)')
    u.raw('pub mod lang {\nuse vstd::prelude::*;\nuse vstd::string::*;\nuse vstd::utf8::*;\n')
    u.item(LANG, r'^pub enum LineEnding \{', prefix='#[derive(Copy, Clone)]\n', name='enum LineEnding')
    u.item(LANG, r'^pub enum TabKind \{', prefix='#[derive(Copy, Clone)]\n', name='enum TabKind')
    u.item(LANG, r'^pub struct ReconstructionSettings \{', pub_fields=True, name='struct ReconstructionSettings')
    u.raw('''
''' + open(u.verif + '/vx/specs/strspec.rs').read() + '''
pub open spec fn sb(s: &str) -> Seq<u8> { s.spec_bytes() }
pub open spec fn sS(s: String) -> Seq<u8> { encode_utf8(s@) }
pub open spec fn all_bytes(s: Seq<u8>, b: u8) -> bool { forall|i: int| 0 <= i < s.len() ==> #[trigger] s[i] == b }
''')
    u.raw('impl ReconstructionSettings {\n')
    W = r'^impl ReconstructionSettings \{'
    u.fn(LANG, r'^    pub fn new\(', name='ReconstructionSettings::new', within_re=W,
         ensures=[
             'sS(r.indentation_str).len() == indent_width as int',
             'sS(r.continuation_str).len() == continuation_width as int',
             '(line_ending is Lf) ==> sb(r.newline_str) =~= seq![0x0au8]',
             '(line_ending is Crlf) ==> sb(r.newline_str) =~= seq![0x0du8, 0x0au8]',
             '(tab is Soft) ==> all_bytes(sS(r.indentation_str), 0x20) && all_bytes(sS(r.continuation_str), 0x20)',
             '(tab is Hard) ==> all_bytes(sS(r.indentation_str), 0x09) && all_bytes(sS(r.continuation_str), 0x09)',
         ],
         opens_with='    proof { lemma_literals(); }',
         hints=[{'at': 'let indentation_str =', 'where': 'before',
                 'text': '        proof { assert(indent.spec_bytes().len() == 1); }'},
                {'at': 'let continuation_str =', 'where': 'after',
                 'text': '        proof {\n'
                         '            let l = indent.spec_bytes().len() as int;\n'
                         '            assert(l * (indent_width as int) == indent_width as int) by (nonlinear_arith) requires l == 1;\n'
                         '            assert(l * (continuation_width as int) == continuation_width as int) by (nonlinear_arith) requires l == 1;\n'
                         '        }'}])
    for g in ('get_newline_str', 'get_indentation_str', 'get_continuation_str'):
        field = g[4:]
        u.fn(LANG, r'^    pub fn %s\(&self\)' % g, name='ReconstructionSettings::' + g, within_re=W,
             ensures=['r == self.%s' % field if field == 'newline_str' else 'sb(r) == sS(self.%s)' % field])
    u.raw('}\n}\n')

    u.raw('pub mod types {\nuse vstd::prelude::*;\nuse crate::lang::ReconstructionSettings;\nuse crate::lang::sb;\nuse crate::lang::sS;\n')
    for h, n, d in [(r'^pub\(super\) enum DecisionRequirement \{', 'enum DecisionRequirement', '#[derive(Clone, Copy, PartialEq, Eq)]\n'),
                    (r'^pub\(super\) enum RawDecision \{', 'enum RawDecision', '#[derive(Clone, Copy, PartialEq, Eq)]\n'),
                    (r'^pub\(super\) enum Decision \{', 'enum Decision', '#[derive(Clone, Copy, PartialEq, Eq)]\n'),
                    (r'^pub\(super\) struct LineWhitespace \{', 'struct LineWhitespace', '#[derive(Clone, Copy, PartialEq, Eq)]\n')]:
        u.item(TYPES, h, name=n, prefix=d, edits=[('#[default]\n', '', 'D1')] if 'DecisionRequirement' in n else None)
    u.raw('impl DecisionRequirement {\n')
    u.fn(TYPES, r'^    pub\(super\) fn map_can_break\(self, can_break: bool\)', name='DecisionRequirement::map_can_break',
         within_re=r'^impl DecisionRequirement \{',
         ensures=['can_break ==> r == self',
                  '!can_break && self == Self::MustBreak ==> r == Self::Invalid',
                  '!can_break && self == Self::Indifferent ==> r == Self::MustNotBreak',
                  '!can_break && (self == Self::Invalid || self == Self::MustNotBreak) ==> r == self'])
    u.raw('}\nimpl RawDecision {\n')
    u.fn(TYPES, r'^    pub\(super\) fn with_continuation\(self, continuations: u16\)', name='RawDecision::with_continuation',
         within_re=r'^impl RawDecision \{',
         ensures=['self == Self::Break ==> r == (Decision::Break { continuations })', 'self == Self::Continue ==> r == Decision::Continue'])
    u.raw('}\nimpl Decision {\n')
    u.fn(TYPES, r'^    pub\(super\) fn to_raw\(self\)', name='Decision::to_raw', within_re=r'^impl Decision \{',
         ensures=['(self is Break) ==> r == RawDecision::Break', '(self is Continue) ==> r == RawDecision::Continue'])
    u.raw('}\n')
    # D4: `impl Add for LineWhitespace` re-emitted as an inherent method with the same body
    u.raw('impl LineWhitespace {\n')
    u.fn(TYPES, r'^    fn add\(self, rhs: Self\) -> Self::Output', name='LineWhitespace::add', within_re=r'^impl Add for LineWhitespace \{',
         edits=[('-> Self::Output', '-> LineWhitespace', 'D4')],
         requires=['self.indentations + rhs.indentations <= u16::MAX', 'self.continuations + rhs.continuations <= u16::MAX'],
         ensures=['r.indentations == self.indentations + rhs.indentations', 'r.continuations == self.continuations + rhs.continuations'])
    u.assume('LineWhitespace::add: no overflow only below 65 536 nesting levels (explicit requires; needs > 65 535 nested blocks to violate)')
    W2 = r'^impl LineWhitespace \{'
    u.fn(TYPES, r'^    pub\(super\) fn len\(&self, recon_settings: &ReconstructionSettings\)', name='LineWhitespace::len', within_re=W2,
         edits=[vxgen.D5_GETTER_LEN],
         requires=['sS(recon_settings.indentation_str).len() <= 255', 'sS(recon_settings.continuation_str).len() <= 65025'],
         ensures=['r as int == self.indentations as int * sS(recon_settings.indentation_str).len() + self.continuations as int * sS(recon_settings.continuation_str).len()'],
         opens_with='''    proof {
        assert(self.indentations as int * sS(recon_settings.indentation_str).len() <= 65535 * 255) by (nonlinear_arith)
            requires self.indentations <= 65535, sS(recon_settings.indentation_str).len() <= 255;
        assert(self.continuations as int * sS(recon_settings.continuation_str).len() <= 65535 * 65025) by (nonlinear_arith)
            requires self.continuations <= 65535, sS(recon_settings.continuation_str).len() <= 65025;
    }''')
    u.fn(TYPES, r'^    pub\(super\) fn zero\(\)', name='LineWhitespace::zero', within_re=W2,
         ensures=['r.indentations == 0', 'r.continuations == 0'])
    u.raw('}\n}\n')

    # ---- front-end: user-facing settings -> widths and strings (C10: "a unit is one tab or tab_width spaces",
    #      "continuation_indents x continuations")
    u.raw('''pub mod frontend {
use vstd::prelude::*;
use vstd::string::*;
use vstd::utf8::*;
use crate::lang::*;
// D6t: types the conversion never inspects
#[verifier::external_body] pub struct BeginStyle { _p: u8 }
#[verifier::external_body] pub struct InternalEncoding { _p: u8 }
// D12: `val.line_ending.into()` (From impl with cfg(windows) arms) replaced by a call of this stub; result unconstrained here
#[verifier::external_body]
fn line_ending_into(value: LineEnding) -> (r: crate::lang::LineEnding) { unimplemented!() }
''')
    u.assume('D12: `val.line_ending.into()` replaced by a stub with an unconstrained result (the front-end From<LineEnding> impl has cfg(windows) arms); '
             'the newline string is covered by KX settings / recon, not here')
    INNER_ATTRS = (re.compile(r'(?m)^[ \t]*#\[[^\]\n]*\]\n'), '', 'D1')
    u.item(FRONT, r'^enum LineEnding \{', prefix='#[derive(Copy, Clone)]\n', name='enum LineEnding (front-end)', edits=[INNER_ATTRS])
    u.item(FRONT, r'^pub struct FormattingConfig \{', pub_fields=True, name='struct FormattingConfig')
    # D4: the trait method `From<&FormattingConfig>::from` re-emitted as a free function with the same body (Self spelled out)
    u.fn(FRONT, r'^    fn from\(val: &FormattingConfig\) -> Self', name='ReconstructionSettings::from_FormattingConfig',
         within_re=r'^impl From<&FormattingConfig> for ReconstructionSettings \{',
         edits=[('fn from(val: &FormattingConfig) -> Self', 'fn reconstruction_settings_from(val: &FormattingConfig) -> ReconstructionSettings', 'D4'),
                ('val.line_ending.into()', 'line_ending_into(val.line_ending)', 'D12')],
         hints=[{'at': 'let (indent_width, continuation_width, tab) =', 'where': 'before',
                 'text': '        proof { assert(val.continuation_indents as int * val.tab_width as int <= 65025) by (nonlinear_arith)\n'
                         '            requires val.continuation_indents <= 255, val.tab_width <= 255; }'}],
         ensures=[
             # one indentation unit is one tab, or tab_width spaces
             'val.use_tabs ==> sS(r.indentation_str).len() == 1 && all_bytes(sS(r.indentation_str), 0x09)',
             '!val.use_tabs ==> sS(r.indentation_str).len() == val.tab_width as int && all_bytes(sS(r.indentation_str), 0x20)',
             # one continuation is continuation_indents units - for every setting, with no cap (C08: indentation is a whole number of units)
             'val.use_tabs ==> sS(r.continuation_str).len() == val.continuation_indents as int && all_bytes(sS(r.continuation_str), 0x09)',
             '!val.use_tabs ==> all_bytes(sS(r.continuation_str), 0x20) && sS(r.continuation_str).len() == val.continuation_indents as int * val.tab_width as int',
         ])
    u.raw('}\nfn main() {}\n}\n')
