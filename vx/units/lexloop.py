"""U1 lexloop — the scanner main loop, verified verbatim for all input lengths.

Verified: lex_complete, lex, whitespace_and_token, eof, RawToken::new.
Assumed (D6), each discharged elsewhere: count_leading_whitespace (KX lexscan),
lex_token / lex_asm_token (VX lexops + KX lextable/lexcomplex: every sub-scanner
satisfies the same clause), to_final_token (KX lextable), rounded_prefix (only
evaluated on the unreachable failure path of lex_complete's assert!).
"""
LANG = 'core/src/lang.rs'
LEX = 'core/src/defaults/lexer.rs'

ENUMS = ['InKind', 'DeclKind', 'KeywordKind', 'EqKind', 'ChevronKind', 'CaretKind', 'OperatorKind',
         'NumberLiteralKind', 'CommentKind', 'ConditionalDirectiveKind', 'TextLiteralKind', 'RawTokenType']

B = 'spec_bytes()'


def lang_module(u, extra=lambda u: None):
    u.raw('pub mod lang {\nuse vstd::prelude::*;\n')
    for e in ENUMS:
        u.item(LANG, r'^pub enum %s \{' % e, prefix='#[derive(PartialEq, Eq, Copy, Clone)]\n', name='enum ' + e)
    u.item(LANG, r'^impl RawTokenType \{', name='impl RawTokenType')
    u.item(LANG, r"^pub struct RawToken<'a> \{", pub_fields=True, name='struct RawToken')
    u.raw("impl<'a> RawToken<'a> {\n")
    u.fn(LANG, r'^    pub fn new\(content: &\'a str, ws_len: u32, token_type: RawTokenType\)', name='RawToken::new',
         within_re=r"^impl<'a> RawToken<'a> \{",
         ensures=['r.content == content', 'r.ws_len == ws_len', 'r.token_type == token_type'])
    u.raw('}\n')
    extra(u)
    u.raw('}\n')


def lexer_prelude(u):
    u.raw('pub mod lexer {\nuse vstd::prelude::*;\nuse vstd::string::*;\nuse vstd::utf8::*;\n')
    # the `use crate::lang::...` lines of the file, verbatim
    src = u.src(LEX)
    for line in src.split('\n')[:12]:
        if line.startswith('use crate::lang::'):
            u.raw(line)
    u.raw(open(u.verif + '/vx/specs/lexspec.rs').read())
    for h, n in [(r'^struct LexState \{', 'struct LexState'), (r"^struct LexedToken<'a> \{", 'struct LexedToken'),
                 (r'^type OffsetAndTokenType', 'type OffsetAndTokenType'), (r"^struct LexArgs<'a, 'b> \{", 'struct LexArgs')]:
        u.item(LEX, h, name=n, const=h.startswith('^type'))


TOKSPEC = '''
pub open spec fn tok_bytes(toks: Seq<RawToken<'_>>) -> Seq<u8>
    decreases toks.len()
{
    if toks.len() == 0 { Seq::<u8>::empty() } else { tok_bytes(toks.drop_last()) + toks.last().content.spec_bytes() }
}
// a token other than end-of-file: non-empty content starting at a non-blank, preceded by exactly the blank run
pub open spec fn tok_ok(t: RawToken<'_>) -> bool {
    t.token_type != TT::Eof
    && t.ws_len < t.content.spec_bytes().len()
    && t.ws_len == blank_run(t.content.spec_bytes(), 0)
}
// the end-of-file token: nothing but blanks
pub open spec fn eof_ok(t: RawToken<'_>) -> bool {
    t.token_type == TT::Eof
    && t.ws_len == t.content.spec_bytes().len()
    && blank_run(t.content.spec_bytes(), 0) == t.content.spec_bytes().len()
}
spec fn lexed_ok(t: LexedToken<'_>) -> bool {
    t.token_type != TT::Eof
    && t.whitespace_count < t.token_content.spec_bytes().len()
    && t.whitespace_count == blank_run(t.token_content.spec_bytes(), 0)
}
'''

# the contract every token scanner has to meet for the loop proof (used as the
# assumed contract of lex_token / lex_asm_token here, and as a proof goal in
# lexops / lextable / lexcomplex)
LEX_TOKEN_ENSURES = [
    'match r { Some((e, tt)) => args.offset < e <= args.input.spec_bytes().len() '
    '&& is_char_boundary(args.input.spec_bytes(), e as int) && tt != TT::Eof, '
    'None => args.offset >= args.input.spec_bytes().len() }',
]


def build(u):
    u.raw('use vstd::prelude::*;\nverus! {\n')
    lang_module(u)
    lexer_prelude(u)
    u.raw(TOKSPEC)

    u.stub(LEX, r'^fn rounded_prefix\(', name='rounded_prefix', kx=None)
    u.assume('rounded_prefix: no contract; only evaluated as an argument of the panic message of lex_complete\'s assert!, which is proved unreachable')

    u.fn(LEX, r'^fn lex_complete\(', name='lex_complete',
         requires=['input.spec_bytes().len() <= u32::MAX'],
         ensures=[
             'tok_bytes(r@) == input.spec_bytes()',
             'r@.len() >= 1',
             'eof_ok(r@.last())',
             'forall|i: int| 0 <= i < r@.len() - 1 ==> tok_ok(#[trigger] r@[i])',
         ])

    u.fn(LEX, r'^fn lex\(', name='lex',
         requires=['input.spec_bytes().len() <= u32::MAX'],
         ensures=[
             'tok_bytes(r.1@) + r.0.spec_bytes() == input.spec_bytes()',
             'r.0.spec_bytes().len() == 0',
             'r.1@.len() >= 1',
             'eof_ok(r.1@.last())',
             'forall|i: int| 0 <= i < r.1@.len() - 1 ==> tok_ok(#[trigger] r.1@[i])',
         ],
         edits=[('input.len() / 8', 'input.as_bytes().len() / 8', 'D5')],
         opens_with='    let ghost orig = input;',
         loops=[{
             'keyword': 'while',
             'invariant': [
                 'tok_bytes(tokens@) + input.spec_bytes() == orig.spec_bytes()',
                 'input.spec_bytes().len() <= u32::MAX',
                 'forall|i: int| 0 <= i < tokens@.len() ==> tok_ok(#[trigger] tokens@[i])',
             ],
             'ensures': ['blank_run(input.spec_bytes(), 0) == input.spec_bytes().len()'],
             'decreases': 'input.spec_bytes().len()',
         }],
         hints=[
             {'at': 'tokens.push(', 'where': 'after',
              'text': '        proof { assert(tokens@.drop_last() == old_tokens_in_loop); }'},
             {'at': 'tokens.push(', 'where': 'before',
              'text': '        let ghost old_tokens_in_loop = tokens@;'},
             {'at': 'let (input, eof_token) =', 'where': 'before',
              'text': '    let ghost old_tokens = tokens@;'},
             {'at': '(input, tokens)\n', 'where': 'before',
              'text': '    proof { assert(tokens@.drop_last() == old_tokens); }'},
         ])

    u.stub(LEX, r'^fn to_final_token\(', name='to_final_token', kx='lextable::to_final_token',
           edits=[("LexedToken {\n        whitespace_count,\n        token_content,\n        token_type,\n    }: LexedToken<'_>,",
                   "t: LexedToken<'_>,", 'D6')],
           requires=['t.whitespace_count <= u32::MAX'],
           ensures=['r.content == t.token_content', 'r.ws_len == t.whitespace_count as u32', 'r.token_type == t.token_type'])

    u.fn(LEX, r'^fn whitespace_and_token<', name='whitespace_and_token',
         requires=['input.spec_bytes().len() <= u32::MAX'],
         ensures=[
             'match r { Some((rem, tok)) => tok.token_content.spec_bytes() + rem.spec_bytes() == input.spec_bytes() '
             '&& lexed_ok(tok) && rem.spec_bytes().len() < input.spec_bytes().len(), '
             'None => blank_run(input.spec_bytes(), 0) == input.spec_bytes().len() }',
         ],
         hints=[
             {'at': 'let (token_content, remaining) =', 'where': 'after',
              'text': '    proof {\n'
                      '        lemma_blank_run_prefix(input.spec_bytes(), 0, end_exclusive as int);\n'
                      '        assert(token_content.spec_bytes() =~= input.spec_bytes().subrange(0, end_exclusive as int));\n'
                      '    }'},
             {'at': 'let args = LexArgs {', 'where': 'before',
              'text': '    proof { lemma_blank_run_bound(input.spec_bytes(), 0); }'},
         ])

    # count_leading_whitespace: the byte loop is verified; the cold non-ASCII path (str slicing + chars().take_while().map().sum(),
    # outside Verus' subset) is one call expression, replaced (D11) by a function with an ASSUMED contract.
    u.raw('''
// D11 call-site stub for `count_unicode_whitespace(input[count..].chars())`.  ASSUMED (bounded discharge: KX lexscan, NX lexnx
// tokspec_small).  The requires keeps the panic obligation of `input[count..]` (slicing off a character boundary panics).
#[verifier::external_body]
fn count_unicode_whitespace_from(input: &str, from: usize) -> (r: usize)
    requires from <= input.spec_bytes().len(), is_char_boundary(input.spec_bytes(), from as int)
    ensures r == blank_run(input.spec_bytes(), from as int), is_char_boundary(input.spec_bytes(), from + r),
{ unimplemented!() }
''')
    u.assume('D11: in count_leading_whitespace the call `count_unicode_whitespace(input[count..].chars())` (cold path for the first non-ASCII byte) is '
             'replaced by a stub with the assumed contract "length of the maximal blank prefix from `count`, ending on a character boundary"; '
             'count_unicode_whitespace itself (iterator adapters) is not verified by Verus - KX lexscan (bounded) and NX lexnx tokspec_small check it')
    u.fn(LEX, r'^pub\(crate\) fn count_leading_whitespace\(', name='count_leading_whitespace',
         requires=['input.spec_bytes().len() <= u32::MAX'],
         ensures=['r == blank_run(input.spec_bytes(), 0)',
                  'is_char_boundary(input.spec_bytes(), r as int)'],
         edits=[('for &b in input.as_bytes() {', 'for b in input.as_bytes() {\n        let b = *b;', 'D10'),
                ('count_unicode_whitespace(input[count..].chars())', 'count_unicode_whitespace_from(input, count)', 'D11')],
         opens_with='    let ghost bs = input.spec_bytes();\n    proof { lemma_str_valid(input); }',
         loops=[{
             'keyword': 'for', 'iter_name': 'it',
             'invariant_except_break': ['count == it.index@'],
             'invariant': [
                 'it.history@.len() == it.index@', '0 <= it.index@ <= bs.len()',
                 'forall|j: int| 0 <= j < it.index@ ==> *it.history@[j] == bs[j]',
                 'bs == input.spec_bytes()', 'valid_utf8(bs)', 'bs.len() <= u32::MAX',
                 'count <= bs.len()', 'all_ascii_blank(bs, count as int)',
             ],
             'ensures': ['count == bs.len() || (count < bs.len() && 0x20 < bs[count as int] <= 0x7F)'],
         }],
         hints=[
             {'at': 'return count + count_unicode_whitespace_from', 'where': 'before',
              'text': '                proof { lemma_blank_prefix(bs, count as int); lemma_ascii_prefix_boundary(bs, count as int); '
                      'lemma_blank_run_bound(bs, count as int); }'},
             {'at': '    count\n}', 'where': 'before',
              'text': '    proof { lemma_blank_prefix(bs, count as int); lemma_ascii_prefix_boundary(bs, count as int); }'},
         ])
    u.assume('D10: `for &b in input.as_bytes()` is emitted as `for b in input.as_bytes() { let b = *b; ...` (Verus takes no reference pattern in a for loop; same values)')
    u.stub(LEX, r'^fn lex_token\(', name='lex_token', kx='lexops+lextable+lexcomplex',
           requires=['args.offset <= args.input.spec_bytes().len()'], ensures=LEX_TOKEN_ENSURES)
    u.stub(LEX, r'^fn lex_asm_token\(', name='lex_asm_token', kx='lexops+lextable+lexcomplex',
           requires=['args.offset <= args.input.spec_bytes().len()'], ensures=LEX_TOKEN_ENSURES)

    u.fn(LEX, r'^fn eof\(', name='eof',
         requires=['input.spec_bytes().len() <= u32::MAX'],
         ensures=[
             'r.1.token_content.spec_bytes() + r.0.spec_bytes() == input.spec_bytes()',
             'r.1.token_type == TT::Eof',
             'r.1.whitespace_count == r.1.token_content.spec_bytes().len()',
             'r.1.whitespace_count <= u32::MAX',
             'blank_run(input.spec_bytes(), 0) == input.spec_bytes().len() ==> '
             'r.0.spec_bytes().len() == 0 && blank_run(r.1.token_content.spec_bytes(), 0) == r.1.token_content.spec_bytes().len()',
         ],
         hints=[{'at': 'let (token_content, remaining) =', 'where': 'after',
                 'text': '    proof { lemma_blank_run_bound(input.spec_bytes(), 0);\n'
                         '        if blank_run(input.spec_bytes(), 0) == input.spec_bytes().len() { assert(token_content.spec_bytes() =~= input.spec_bytes()); } }'}])

    u.raw('}\n}\nfn main() {}\n')
    u.assume('inputs shorter than 4 GiB (to_final_token panics beyond u32::MAX blanks; stated as requires of lex)')
