"""Run one VX unit: extract from /repo, splice, run Verus twice (proof run and
canary run), map diagnostics to obligation ids."""
import importlib.util
import json
import os
import re
import subprocess
import sys
import time

import vxgen

VERIF = os.path.dirname(os.path.dirname(os.path.abspath(__file__)))


def load_unit(name):
    path = os.path.join(VERIF, 'vx', 'units', name + '.py')
    spec = importlib.util.spec_from_file_location('vxunit_' + name, path)
    mod = importlib.util.module_from_spec(spec)
    sys.modules['vxunit_' + name] = mod
    spec.loader.exec_module(mod)
    return mod


def build_unit(name, repo, canary):
    sys.path.insert(0, os.path.join(VERIF, 'vx', 'units'))
    mod = load_unit(name)
    u = vxgen.Unit(name, repo)
    u.verif = VERIF
    u.canary = canary
    mod.build(u)
    return u


def run_verus(path, timeout=600, rlimit=None):
    cmd = ['verus', path, '--output-json', '--time', '--multiple-errors', '200',
           '--triggers-mode', 'silent', '--error-format=json', '--num-threads', '8']
    if rlimit:
        cmd += ['--rlimit', str(rlimit)]
    t0 = time.time()
    try:
        p = subprocess.run(cmd, capture_output=True, text=True, timeout=timeout, cwd=os.path.dirname(path))
    except subprocess.TimeoutExpired:
        return {'status': 'timeout', 'wall_s': time.time() - t0, 'diags': [], 'json': None, 'cmd': ' '.join(cmd)}
    diags = []
    other = []
    for line in p.stderr.split('\n'):
        line = line.strip()
        if line.startswith('{'):
            try:
                d = json.loads(line)
            except ValueError:
                other.append(line)
                continue
            diags.append(d)
        elif line:
            other.append(line)
    js = None
    try:
        js = json.loads(p.stdout)
    except ValueError:
        pass
    return {'status': 'ran', 'rc': p.returncode, 'wall_s': time.time() - t0, 'diags': diags, 'json': js,
            'stderr_other': other[:50], 'cmd': ' '.join(cmd)}


VERIF_FAIL_RX = re.compile(r'not satisfied|assertion failed|possible arithmetic|possible division|possible bit shift|'
                           r'could not prove termination|decreases|may fail to meet|unable to prove|might not|unreachable')


def interpret(u, text, res):
    """-> dict(failed={oid: [msgs]}, undecided=[reasons], verified=n, errors=n)"""
    tab = vxgen.span_table(text)
    failed = {}
    hint_failed = {}
    undecided = []
    canary_hits = set()
    if res['status'] != 'ran':
        return {'failed': {}, 'hint_failed': {}, 'undecided': ['verus ' + res['status']], 'verified': 0, 'errors': 0, 'canary_hits': canary_hits, 'smt_ms': 0}
    js = res['json']
    if js is None:
        undecided.append('no JSON result from verus (rc=%s): %s' % (res.get('rc'), ' | '.join(res['stderr_other'][:5])))
    vr = (js or {}).get('verification-results', {})
    if js is not None and (vr.get('encountered-vir-error') or (vr.get('verified', 0) + vr.get('errors', 0) == 0)):
        undecided.append('verus did not reach verification (compile / mode / subset error)')
    for d in res['diags']:
        if d.get('level') != 'error':
            continue
        msg = d.get('message', '')
        if msg.startswith('aborting due to'):
            continue
        spans = d.get('spans', [])
        if not spans:
            undecided.append('verus error without span: ' + msg)
            continue
        prim = [s for s in spans if s.get('is_primary')] or spans
        # which span decides the obligation
        target = None
        low = msg.lower()
        if 'postcondition not satisfied' in low:
            cand = [s for s in spans if 'failed this postcondition' in (s.get('label') or '')]
            target = (cand or prim)[0]
        elif 'invariant not satisfied' in low:
            target = prim[0]
        elif 'precondition not satisfied' in low:
            # primary = call site (the caller's body obligation)
            target = prim[0]
        else:
            target = prim[0]
        if re.search(r'rlimit|resource limit|timed out|timeout', low):
            undecided.append('solver resource limit: ' + msg)
            continue
        if not VERIF_FAIL_RX.search(low):
            undecided.append('not a verification result (construct outside the Verus subset, mode or type error): %s (line %s)' % (msg[:160], target.get('line_start')))
            continue
        cl = vxgen.classify(tab, target['byte_start'])
        detail = '%s (line %d: %s)' % (msg, target['line_start'], (target.get('text') or [{}])[0].get('text', '').strip()[:100])
        if cl is None:
            # syntax / type / mode errors, or errors in spec text: nothing was decided
            undecided.append('verus error outside any function under contract: ' + detail)
            continue
        s, e, kind, oid = cl
        if kind == 'CANARY':
            canary_hits.add(oid)
            continue
        if kind == 'OB':
            failed.setdefault(oid, []).append(detail)
        elif kind == 'CL':
            # a requires clause reported as primary: attribute to the enclosing function body of the *caller*
            other = [sp for sp in spans if sp is not target]
            c2 = vxgen.classify(tab, other[0]['byte_start']) if other else None
            fid = c2[3] if c2 and c2[2] in ('FN', 'HINT') else oid.rsplit('/', 1)[0]
            failed.setdefault(fid + '/body', []).append(detail)
        elif kind == 'HINT':
            # failing ghost hint inside a function: find enclosing FN
            encl = [t for t in tab if t[2] == 'FN' and t[0] <= s <= t[1]]
            fid = encl[0][3] if encl else '?'
            hint_failed.setdefault(fid, []).append('proof hint no longer holds: ' + detail)
        else:  # FN
            failed.setdefault(oid + '/body', []).append(detail)
    smt = 0
    try:
        smt = js['times-ms']['smt']['smt-run']
    except Exception:
        pass
    return {'failed': failed, 'hint_failed': hint_failed, 'undecided': undecided, 'verified': vr.get('verified', 0), 'errors': vr.get('errors', 0),
            'canary_hits': canary_hits, 'smt_ms': smt, 'total_ms': (js or {}).get('times-ms', {}).get('total', 0)}


def run_unit(name, repo, workdir, with_canary=True, keep=True):
    os.makedirs(workdir, exist_ok=True)
    out = {'unit': name, 'engine': 'VX', 'obligations': [], 'failed': {}, 'hint_failed': {}, 'undecided': [], 'functions': [], 'assumptions': []}
    t0 = time.time()
    try:
        u = build_unit(name, repo, canary=False)
    except (vxgen.LostAnchor, OSError) as e:
        out['undecided'].append('extraction: %s' % e)
        out['wall_s'] = time.time() - t0
        return out
    text = u.render()
    path = os.path.join(workdir, name + '.rs')
    with open(path, 'w') as f:
        f.write(text)
    res = run_verus(path)
    it = interpret(u, text, res)
    out['obligations'] = u.obligations()
    out['failed'] = it['failed']
    out['hint_failed'] = it['hint_failed']
    out['undecided'] = it['undecided']
    out['verified_fns'] = it['verified']
    out['verus_errors'] = it['errors']
    out['smt_ms'] = it['smt_ms']
    out['verus_ms'] = it.get('total_ms', 0)
    out['cmd'] = res.get('cmd')
    out['file'] = path
    out['assumptions'] = list(u.assumptions)
    # mechanical scan of the emitted file for everything Verus takes on trust (comments stripped)
    code = re.sub(r'//[^\n]*', '', text)
    scan = {
        'external_body': len(re.findall(r'#\[verifier::external_body\]', code)),
        'assume_specification': len(re.findall(r'\bassume_specification\b', code)),
        'assume': len(re.findall(r'\bassume\s*\(', code)),
        'admit': len(re.findall(r'\badmit\s*\(', code)),
        'external_fn_specification': len(re.findall(r'external_fn_specification|#\[verifier::external\]', code)),
    }
    out['assumption_scan'] = scan
    n_stub = len([f for f in u.functions if f.role == 'assumed'])
    out['assumptions'].append('mechanical scan of the emitted file: %d external_body (%d function stubs listed above with their assumed contracts, the rest opaque D6t types / call-site stubs), '
                              '%d assume_specification (std functions: documented behaviour), %d assume(..), %d admit()' %
                              (scan['external_body'], n_stub, scan['assume_specification'], scan['assume'], scan['admit']))
    if scan['assume'] or scan['admit']:
        out['undecided'].append('the emitted file contains assume(..) / admit(): a proof must not rest on them (%s)' % scan)
    for f in u.functions:
        if f.role in ('verified', 'assumed'):
            out['functions'].append({'name': f.qual, 'where': '%s:%d' % (f.rel, f.line), 'role': f.role,
                                     'sha_repo': f.sha_repo, 'sha_emitted': f.sha_emitted, 'kx': f.kx,
                                     'edits': ['%s %s %s' % e for e in f.edits], 'contract': f.contract_text})
    # an error count that does not match what we attributed means something escaped the mapping
    if it['errors'] and not it['failed'] and not it['undecided'] and not it['hint_failed']:
        out['undecided'].append('verus reported %d errors that could not be attributed' % it['errors'])
    n_verified_expected = len([f for f in u.functions if f.role == 'verified'])
    out['n_under_contract'] = n_verified_expected
    if not it['failed'] and not it['undecided'] and not it['hint_failed'] and it['verified'] < n_verified_expected:
        out['undecided'].append('verus verified %d items, fewer than the %d functions under contract' % (it['verified'], n_verified_expected))
    # canary run: every function under contract must be reachable under its requires
    if with_canary and not out['undecided'] and not out['failed'] and not out['hint_failed']:
        uc = build_unit(name, repo, canary=True)
        ctext = uc.render()
        cpath = os.path.join(workdir, name + '_canary.rs')
        with open(cpath, 'w') as f:
            f.write(ctext)
        cres = run_verus(cpath)
        cit = interpret(uc, ctext, cres)
        expected = set('%s/%s' % (name, f.qual) for f in uc.functions if f.role == 'verified')
        missing = sorted(expected - cit['canary_hits'])
        out['canaries'] = len(expected)
        out['canaries_fired'] = len(expected & cit['canary_hits'])
        if missing:
            out['undecided'].append('vacuity guard: canary assert(false) did not fail in %s (contradictory requires?)' % ', '.join(missing))
        if not keep:
            os.unlink(cpath)
    out['wall_s'] = time.time() - t0
    return out


if __name__ == '__main__':
    name = sys.argv[1]
    repo = sys.argv[2] if len(sys.argv) > 2 else '/repo'
    r = run_unit(name, repo, os.path.join(VERIF, '.work', 'dev'), with_canary='--no-canary' not in sys.argv)
    print(json.dumps({k: v for k, v in r.items() if k not in ('functions',)}, indent=1, default=list))
