"""Engine NX: bounded stand-ins.  For functions that neither Verus (subset) nor
Kani (time / memory) can reach, the function's contract is checked by native
execution of the real code over an exhaustively enumerated small domain (the
bound is stated per test).  Harness modules are `#[cfg(verif_nx)]` test modules
appended to the repository file that owns the function, in the same add-only
work copy the KX engine uses.  Results are labelled `bounded` and are never
counted as proved."""
import os
import re
import subprocess
import time


def run_tests(work, crate, tests, timeout=1800, log=None, thorough=False):
    env = dict(os.environ)
    env['CARGO_NET_OFFLINE'] = 'true'
    env['RUSTFLAGS'] = (env.get('RUSTFLAGS', '') + ' --cfg verif_nx -A unexpected_cfgs -A dead_code -A unused_imports').strip()
    env['CARGO_TARGET_DIR'] = os.path.join(work, 'target-nx')
    if thorough:
        env['VERIF_NX_THOROUGH'] = '1'
    else:
        env.pop('VERIF_NX_THOROUGH', None)
    cmd = ['cargo', 'test', '-p', crate, '--lib', '--offline', '--', 'verif_nx_', '--test-threads', '16', '--show-output']
    t0 = time.time()
    try:
        p = subprocess.run(cmd, cwd=work, env=env, capture_output=True, text=True, timeout=timeout)
        out = p.stdout + '\n' + p.stderr
        rc = p.returncode
    except subprocess.TimeoutExpired as e:
        out = ((e.stdout or b'').decode(errors='replace') if isinstance(e.stdout, bytes) else (e.stdout or '')) + '\n[wall timeout]\n'
        rc = -9
    if log:
        with open(log, 'w') as f:
            f.write(' '.join(cmd) + '\n' + out)
    res = {}
    for m in re.finditer(r'^test (\S+) \.\.\. (ok|FAILED|ignored)', out, re.M):
        res[m.group(1)] = {'status': m.group(2)}
    # panic messages of failing tests:  ---- path::name stdout ----  ...  (until next ---- or 'failures:')
    for m in re.finditer(r'^---- (\S+) stdout ----\n(.*?)(?=^---- |^failures:|^successes:)', out, re.M | re.S):
        if m.group(1) in res:
            txt = m.group(2).strip()
            if '\ncase=' not in txt:
                # the obligation line of the test thread may come after the backtrace of a worker thread that panicked first
                k = txt.find('\nOB ')
                if k > 2500:
                    txt = txt[:600] + '\n[...]' + txt[k:]
            res[m.group(1)]['message'] = txt[:(400000 if '\ncase=' in txt else 3000)]
    build_failed = 'error: could not compile' in out or re.search(r'^error(\[E\d+\])?:', out, re.M) is not None and not res
    return {'rc': rc, 'out': out, 'wall_s': time.time() - t0, 'cmd': 'RUSTFLAGS="--cfg verif_nx" ' + ' '.join(cmd), 'tests': res,
            'build_failed': bool(build_failed), 'timeout': rc == -9}
