"""Which units decide which property, and how each property is reported.

A unit is either a VX unit (vx/units/<name>.py) or a KX unit (kx/units/<name>.json).
`role` strings are copied into the evidence so a reader can see what each unit
contributes to the property.
"""

PROPS = {
    'C13': {
        'title': 'Scanning is lossless and follows the Delphi lexical rules at any length',
        'level': 'proof',
        'vx': {
            'lexloop': 'scanner main loop for every input length: tokens concatenate to the input, one Eof last, '
                       'non-empty contents starting at a non-blank, split points on character boundaries, lex_complete cannot panic',
            'lexops': 'loop-free sub-scanners against the lexical rules for every length and offset; '
                      'each meets the clause the loop proof assumes of lex_token',
        },
        'kx': {
            'lexscan': 'scanning helpers (blank run, identifier end, digit runs) on bounded windows',
            'lextable': 'keyword table for every ASCII word per length; dispatch tables for every byte; to_final_token',
            'lexcomplex': 'looping sub-scanners (comments, literals, directives, identifiers) on bounded windows',
        },
        'not_decided': ['the AVX2 identifier routine and its run-time dispatch (intrinsics, unsafe)',
                        'composition dispatch-table + sub-scanner contracts => lex_token contract is an argument on paper'],
    },
}

# filled in further below as units come online

TRUSTED_BASE = [
    'Verus 0.2026.09.13 + Z3; vstd specifications of str/Vec/slice/Option/iterators (as_bytes, split_at, is_char_boundary, get, push, iter().rev())',
    'Kani 0.68.0 + CBMC 6.11 + CaDiCaL; Kani models of alloc/core as compiled for cfg(kani)',
    'VX extraction rules D1-D12 (attributes dropped, log macros -> (), basic_op! expanded from its macro_rules! body, std-trait impl methods re-emitted as inherent / free fns, str::len -> as_bytes().len(), functions outside the subset as signature + assumed contract, receiver projection, reference or-patterns, re-bound mut parameters, `for &b in`, two call-site stubs; DESIGN.md 10.1); re-derived from /repo on every run',
    'KX injection: harness modules appended under cfg(kani), derive(kani::Arbitrary) on 14 plain enums of lang.rs; add-only, byte-equality of the rest re-checked on every run',
    'machine arithmetic is Rust fixed-width arithmetic in both tools (overflow is an obligation, not assumed away)',
    'unsafe AVX2 code (find_identifier_end_avx2) and its run-time dispatch are not verified',
]


MC_TEXT = ('Contract obligations on the functions that implement this property, discharged on the real code: Verus obligations hold for all '
           'inputs (unbounded); Kani obligations are complete where the harness is loop-free over the full argument domain and bounded '
           '(bound stated per harness in the evidence) otherwise. The composition of the function-level facts into the end-to-end '
           'statement runs through the parser / line-wrapping search, which no contract in reach covers: it is listed under NOT DECIDED '
           'and a change there is not detected by this check.')

PROPS['C01'] = {
    'title': 'Formatting preserves every non-blank character, in order',
    'level': 'model_checking',
    'vx': {'lexloop': 'L1: scanning is lossless for every input length (tokens concatenate back to the input; leading whitespace is exactly the blank run)'},
    'kx': {
        'fmtdata': 'L2: scanner token -> formatter token keeps text and whitespace length; kinds map 1:1; ignored tokens cannot be obtained mutably',
        'rewriters': 'L3: the two text-replacing rules under contract (keyword lower-casing, comment/directive normalisation) keep every non-blank byte up to ASCII case inside keywords / directive names',
        'wrapperedge': 'L3: with no multi-line string rewritten the wrapper post-pass does not touch token text',
        'recon': 'L4: reconstruct emits ws_i ++ content_i exactly once per token, in order; ws_i consists of blanks only',
    },
    'not_decided': ['multi-line string re-indentation (try_rewrite_string) is not under contract: C01 is decided for inputs without re-indented multi-line strings or with format_multiline_strings=false',
                    'frame: no other code calls Token::set_content or permutes the token slice (parser and wrapper hold &mut) - by reading, not proved',
                    'no TokenRemover is registered by make_formatter - by reading'],
    'explanation': MC_TEXT,
}
PROPS['C02'] = {
    'title': 'Well-formed code re-scans to the same tokens after formatting',
    'level': 'model_checking',
    'vx': {},
    'kx': {
        'recon': 'safety net: a line break follows a single-line comment whenever none was planned; configured newline at every break site',
        'wrapperedge': 'hard invariants table: break after line comments / multi-line block comments / unterminated literals; break before own-line comments and multi-line strings; inline comments never broken off',
        'spacing': 'word-word and word-number pairs keep exactly one space; inline line comments get one space',
        'rewriters': 'normalisations keep the lexical shape (`//` prefix, `{$` / `(*$` prefix, length of directives) and are the documented ones only',
        'lexcomplex': 'a single-line comment ends exactly at LF / CR / end of input (what makes the safety net sufficient)',
    },
    'not_decided': ['that the wrapping search honours the invariants on every path', 'the generics consolidator (< > re-typing)',
                    'pairwise glue-safety of operator kinds (needs a grammar oracle)'],
    'explanation': MC_TEXT,
}
PROPS['C03'] = {
    'title': 'Formatting is idempotent on well-formed code',
    'level': 'model_checking',
    'vx': {},
    'kx': {
        'rewriters': 'comment / directive / keyword normalisations are fixpoints',
        'spacing': 'S5: the spacing rule is a fixpoint on its own output',
        'eofnl': 'the end-of-file rule writes constants (trivially idempotent)',
        'fmtdata': 'the layout facts read back from formatted text are (LF count, blanks of the last line) only',
    },
    'not_decided': ['that the wrapping search chooses the same breaks on its own output', 're-indentation of multi-line strings being a fixpoint',
                    'check_formatting is text inequality + bail! (read, 3 lines)'],
    'explanation': MC_TEXT,
}
PROPS['C04'] = {
    'title': 'Formatting always terminates without aborting, on any input',
    'level': 'other',
    'vx': {
        'lexloop': 'the scanner loop terminates (decreases clause) and cannot panic for inputs < 4 GiB: split_at preconditions, the assert! of lex_complete, index and overflow obligations',
        'lexops': 'no overflow / index panic in the loop-free sub-scanners for every length and offset',
        'wsarith': 'whitespace length arithmetic cannot overflow for widths <= 255',
        'levels': 'nesting-level sum cannot overflow for < 2^48 contexts; NonEmptyVec operations never panic',
    },
    'kx': {
        'cursor': 'no arithmetic overflow / slice panic in cursor re-projection for every attached position (the three repaired defects fail here)',
        'recon': 'reconstruct: no panic within the bound',
        'lexscan': 'scanning helpers: no panic on bounded windows',
        'lexcomplex': 'looping sub-scanners: no panic, end within the input on a char boundary (bounded windows)',
        'spacing': 'spacing rule: no index / overflow panic for any kinds and counters',
        'fmtdata': 'FormattingData::from: saturating conversions, no panic',
    },
    'not_decided': ['termination and panic-freedom of the recursive-descent parser and of find_optimal_solution', 'linearity of conditional-directive passes',
                    'polynomial running time is not a contract property', 'inputs >= 4 GiB (to_final_token panics by design)'],
    'explanation': 'Panic-freedom and termination are decided function by function: Verus proves them for all inputs for the scanner and the arithmetic '
                   '(every Rust-level obligation - overflow, index, slice bounds, split_at char boundary, assert!, decreases - is an obligation of the unit); '
                   'Kani checks its built-in overflow / bounds / unwrap / panic properties in every harness of the units listed, within the stated bounds. '
                   'Termination and panic-freedom of the parser and the wrapping search are NOT decided; a whole-pipeline statement is therefore not claimed.',
}
PROPS['C05'] = {
    'title': 'Block structure is rendered: one statement per line at its nesting depth',
    'level': 'model_checking',
    'vx': {'levels': 'level of a logical line = clamp(sum of context level deltas down to the nearest parent context), for every context stack'},
    'kx': {
        'settings': 'begin_style=always_wrap <=> break_before_begin, for every configuration',
        'recon': 'reconstruct renders `indentations_before` whole indentation units at the start of a broken line',
    },
    'not_decided': ['the parser\'s line splitting and context deltas; finish_logical_line stamping the level', 'write-back of level into indentations_before (reconstruct_solution)', 'child-line placement'],
    'explanation': MC_TEXT + ' This is the weakest claim in the set: only the level arithmetic, the begin_style mapping and the rendering of indentation are decided.',
}
PROPS['C06'] = {
    'title': 'Output does not depend on the input\'s line wrapping or spacing',
    'level': 'model_checking',
    'vx': {},
    'kx': {
        'fmtdata': 'original whitespace is reduced to (number of LF, blanks after the last LF without trailing CR); nothing else of it survives',
        'spacing': 'S4, for ALL token kinds and ALL u16 counters on 3 tokens: the spacing rule is a function of the token kinds and of whether each gap is empty - not of the amount of blanks, the indentation, or blanks versus a line break (gaps touching a comment kept, as the property says)',
        'lexcomplex': 'comment kinds depend only on first-on-line (LF before) / LF inside',
    },
    'not_decided': ['that parser and search never read FormattingData beyond the blank-line grouping', 'that write-back overwrites the counters of every visited token'],
    'explanation': MC_TEXT,
}
PROPS['C07'] = {
    'title': 'Regions with formatting disabled and asm bodies are kept byte for byte',
    'level': 'model_checking',
    'vx': {},
    'kx': {
        'ignore': 'toggle comments recognised exactly (`//`, `{`, `(*`; pasfmt any case; blank; exact word on/off); region marked from off through the next on',
        'fmtdata': 'marked => ignored flag; ignored => Err(TokenIgnored) from get_token_mut / tokens_mut (no rule can obtain the text mutably)',
        'rewriters': 'keyword and comment rules leave ignored tokens untouched',
        'recon': 'reconstruct emits the original leading whitespace and content of an ignored token byte for byte, also after single-line comments (CR / LF)',
    },
    'not_decided': ['parser classification of asm instruction lines (IgnoreAsmIstructions marks exactly those lines - read)', 'format_into_buf wiring (ignorers -> marker -> FormattedTokens::new_from_tokens)'],
    'explanation': MC_TEXT,
}
PROPS['C08'] = {
    'title': 'Output whitespace is canonical: no trailing blanks, one blank line at most',
    'level': 'model_checking',
    'vx': {'wsarith': 'indentation and continuation strings consist of `width` copies of one unit character (space or tab), for every width'},
    'kx': {
        'recon': 'between tokens only NL^n IND^i CONT^c SPACE^s is emitted',
        'spacing': 'S1: at most one space between tokens on a line, never a tab; first token none',
        'wrapperedge': 'post-pass: a token that starts a line gets no spaces',
        'eofnl': 'the end-of-file token gets exactly one line break, no indentation',
        'rewriters': 'trailing blanks of single-line comments are trimmed',
        'settings': 'indentation unit = one tab iff use_tabs, else tab_width spaces',
    },
    'not_decided': ['never two consecutive blank lines (the clamp lives in reconstruct_solution, not under contract)', 'tokens the wrapper never visits'],
    'explanation': MC_TEXT,
}
PROPS['C09'] = {
    'title': 'The configured line ending is used everywhere and input endings do not matter',
    'level': 'model_checking',
    'vx': {'wsarith': 'ReconstructionSettings::new: newline_str is LF or CR LF exactly per the setting; LineWhitespace::len does not read it'},
    'kx': {
        'settings': 'line_ending option -> newline string, for every configuration',
        'recon': 'one newline string at every break site of reconstruct, including the safety net',
        'fmtdata': 'CR never counts as a line break and never survives outside ignored tokens',
    },
    'not_decided': ['line terminators inside re-indented multi-line strings (try_rewrite_string not under contract)'],
    'explanation': MC_TEXT,
}
PROPS['C10'] = {
    'title': 'Indentation settings only re-render indentation',
    'level': 'model_checking',
    'vx': {'wsarith': 'front-end conversion From<&FormattingConfig> for ReconstructionSettings for ALL (use_tabs, tab_width, continuation_indents): one unit = one tab or tab_width spaces, one continuation = continuation_indents units saturating at 255 columns; ReconstructionSettings::new for ALL widths; measured length = ind*|IND| + cont*|CONT| without overflow'},
    'kx': {
        'settings': 'config -> (unit, |IND|, |CONT|) on concrete settings, through the real str::repeat',
        'recon': 'emitted bytes = IND^ind CONT^cont',
    },
    'not_decided': ['that wrapping decisions depend on the indentation strings only through LineWhitespace::len (frame, by reading)'],
    'explanation': MC_TEXT,
}
PROPS['C11'] = {
    'title': 'wrap_column is a limit, not a style switch',
    'level': 'other',
    'vx': {},
    'kx': {
        'penalty': 'for ALL u32 lengths and limits: fitting costs nothing; overflow dominates every break, is strictly increasing in length and non-increasing in the limit; break cost independent of the limit',
        'settings': 'wrap_column reaches the wrapper only as max_line_length',
    },
    'not_decided': ['optimality of find_optimal_solution (pruning, iteration cap, limit-dependent collapsing of indifferent decisions): the property itself is NOT decided'],
    'explanation': 'Only necessary conditions on the penalty function are decided (complete over all u32 pairs). The property needs the search to return a penalty-minimal '
                   'assignment with width-independent tie-breaks; no contract within reach states that, so this check cannot detect a change inside the search.',
}
PROPS['C13']['kx'] = {
    'lexscan': 'scanning helpers (blank run, identifier end, digit runs) on bounded windows: discharge the contracts lexloop / lexops assume',
    'lextable': 'keyword table for every ASCII word per length; both dispatch tables for every byte; to_final_token; prev/next byte',
    'lexcomplex': 'looping sub-scanners (comments, literals, directives, identifiers) on bounded windows: the clause lex_token owes to the loop proof + extent/kind',
}
PROPS['C13']['explanation'] = ('Losslessness, single trailing Eof, non-empty non-blank-starting contents and char-boundary splits are PROVED for all inputs (Verus, lexloop) '
                               'under the assumed contracts of count_leading_whitespace / lex_token, which are discharged on bounded windows (Kani) and, for the loop-free '
                               'sub-scanners, proved for all lengths and offsets (Verus, lexops). Bounded stand-ins are itemised and never counted as proved.')
PROPS['C15'] = {
    'title': 'Cursor tracking keeps cursors on the same text and never alters the result',
    'level': 'model_checking',
    'vx': {},
    'kx': {
        'cursor': 'for every attached position: no overflow, cursor within the output, Content{o} lands at start+min(o,len), out-of-range index lands at the end',
        'recon': 'oracle for emitted byte counts',
    },
    'not_decided': ['the attachment step process_cursors (did not fit Kani)', 'char-boundary of the result', 'tracking never alters the result: type-level frame (relocate_cursors takes &FormattedTokens)'],
    'explanation': MC_TEXT,
}
PROPS['C16'] = {
    'title': 'The three CLI modes agree and only files mode writes',
    'level': 'model_checking',
    'vx': {},
    'kx': {'orchestr': 'write(): bytes appended = BOM ++ encode(text), returned length = bytes written (what set_len gets); mode defaults; is_stdin'},
    'not_decided': ['OS semantics of seek/write_all/set_len; OpenOptions::new() read-only', 'check_formatting / exec_format / error-handler wiring in main (read)'],
    'explanation': MC_TEXT,
}
PROPS['C17'] = {
    'title': 'Files are written back in the encoding and with the BOM they were read in',
    'level': 'model_checking',
    'vx': {},
    'kx': {'orchestr': 'UTF-16LE/BE encoders for EVERY scalar value (complete); encoder dispatch; BOM sniffing on every 4-byte prefix; BOM written first'},
    'not_decided': ['encoding_rs decode/encode contracts', 'decode_file: replacements => Err and "decode exactly the rest" (read)'],
    'explanation': MC_TEXT,
}
PROPS['C12'] = {
    'title': 'Multi-line string literals keep their value',
    'level': 'exploration',
    'vx': {}, 'kx': {},
    'nx': {'mlstring': 'contract of try_rewrite_string / lines_custom executed natively on the real code over an exhaustively enumerated small domain (bounded stand-in)'},
    'kx_extra': {},
    'not_decided': ['NOT A PROOF: bounded stand-in only (function outside the Verus subset; Kani did not terminate)',
                    'format_multiline_strings: choice of the base indentation from the last line, the byte-for-byte path for format_multiline_strings=false (decided for the post-pass in wrapperedge), the forced break before a multi-line literal (wrapperedge invariants)',
                    'lexer recognition of the literal (lexcomplex: multi-line opener clause only)'],
    'explanation': 'The property is a contract on one function. That function cannot be brought within reach of either verifier (DESIGN.md 3, 6), so - as the only '
                   'claim - its contract is checked by a bounded stand-in: native execution of the real function against an independent oracle for every input of an '
                   'exhaustively enumerated small domain. Labelled bounded; nothing is counted as proved.',
    'technique': 'bounded stand-in for a function outside verifier reach: the contract of try_rewrite_string executed natively on the real code over an exhaustively enumerated domain (not deductive; labelled bounded, never counted as proved)',
}
PROPS['C01']['nx'] = {'mlstring': 'L3 (third text-replacing rule): re-indentation of multi-line strings keeps every interior line\'s value (bounded stand-in)'}
PROPS['C01']['not_decided'][0] = 'multi-line string re-indentation is covered only by a bounded stand-in (native exhaustive execution), not by a proof'
PROPS['C03']['nx'] = {'mlstring': 're-indenting a re-indented literal is the identity (bounded stand-in)'}
PROPS['C09']['kx']['lexcomplex'] = 'single-line tokens (text literals, single-line comments, asm strings) stop before CR as well as LF, so a CR of the input never becomes token text'
PROPS['C09']['nx'] = {'mlstring': 'interior lines of a re-indented literal are re-joined with the configured line ending; LF, CR and CRLF all end a line (bounded stand-in)'}
PROPS['C09']['not_decided'] = ['line terminators inside re-indented multi-line strings: bounded stand-in only']
STANDIN = 'bounded stand-in for a function outside verifier reach: its contract executed natively on the real code over an exhaustively enumerated domain (not deductive; labelled bounded, never counted as proved)'
PROPS['C14'] = {
    'title': 'Parsing yields well-formed logical lines that cover every token',
    'level': 'exploration',
    'vx': {}, 'kx': {},
    'nx': {'parsecover': 'output contract of DelphiLogicalLineParser::parse executed natively for every token soup of <= 4 items over a 22-item alphabet and 39 204 well-formed programs (bounded stand-in)'},
    'not_decided': ['NOT A PROOF: bounded stand-in only (the parser is outside the Verus subset and Kani did not terminate on its primitives)',
                    'inputs longer than 4 alphabet items that are not in the well-formed list; token kinds outside the alphabet'],
    'explanation': 'The property is the output contract of one function, parse(). Neither verifier reaches it (DESIGN.md 3, 6), so the only claim is a bounded stand-in: the '
                   'contract is executed natively on the real parser, under a per-input watchdog, over an exhaustively enumerated small domain. This stand-in found three '
                   'defects in the parser (a debug-build underflow, an unwrap on truncated input, an endless loop), all repaired.',
    'technique': STANDIN,
}
PROPS['C13']['nx'] = {'avx2': 'the AVX2 routine and the run-time dispatch agree with the scalar routine on 0.9 million (text, offset) pairs (bounded stand-in for the intrinsics code)'}
PROPS['C13']['not_decided'] = ['the AVX2 identifier routine and its run-time dispatch: bounded stand-in only (native differential execution), not proved',
                               'composition dispatch-table + sub-scanner contracts => lex_token contract is an argument on paper']
PROPS['C15']['nx'] = {'cursorrt': 'process_cursors followed by relocate_cursors is the identity on every cursor inside / at the end of a token when the text is unchanged; beyond the end maps to the end; always within the output on a character boundary (bounded stand-in)'}
PROPS['C15']['not_decided'] = ['the attachment step process_cursors: bounded stand-in only', 'tracking never alters the result: type-level frame (relocate_cursors takes &FormattedTokens)']
PROPS['C13']['nx']['lexnx'] = 'identifier_or_keyword against the keyword list for every keyword / near miss / short word, compiler_directive kind and extent (bounded stand-in; their Kani harnesses timed out)'
PROPS['C15']['nx']['cursorml'] = 'MultilineContent positions, incl. ones that no longer fit a re-indented token, land inside the token (bounded stand-in; the Kani harness exhausts memory)'
PROPS['C01'].setdefault('nx', {})['lexnx'] = 'the token-level contract the chain starts from (lossless split, leading parts consist of blanks only, contents start non-blank) executed on every text of <= 4 characters over 27 - the executable partner of the lexloop proof and of its one stub (bounded stand-in)'
PROPS['C04'].setdefault('nx', {})['lexnx'] = 'the recursive directive-expression scanner returns (no panic, no endless loop) on 0.8 million nested forms (bounded stand-in; the loop proof assumes that sub-scanners return)'
PROPS['C04']['nx'].update({'cursorml': 'no overflow / panic in the MultilineContent arm of relocate_cursors for 34 440 attached positions (bounded stand-in)', 'parsecover': 'parse() returns (no panic, no endless loop under a 5 s watchdog) for every token soup of <= 4 items and 39 204 well-formed programs (bounded stand-in)'})
PROPS['C01']['nx']['directive'] = 'directive normalisation changes only ASCII letter case (bounded stand-in)'
PROPS['C02']['nx'] = {'directive': 'directive normalisation keeps length, opener and everything after the directive name (bounded stand-in)'}
PROPS['C03']['nx']['directive'] = 'directive normalisation is a fixpoint (bounded stand-in)'
for _pid in ('C01', 'C02', 'C03', 'C08'):
    PROPS[_pid].setdefault('nx', {})['linecomment'] = 'single-line comment normalisation at the lengths the separator rule needs: documented normal form and fixpoint (bounded stand-in extending KX rewriters)'
PROPS['C16']['nx'] = {'filefmt': 'write() bytes and length, check mode = text equality and never writes, files mode leaves exactly the written bytes (no stale tail), undecodable file untouched, a batch gives every file the result it gets alone (thread pools of 1 and 3) (bounded stand-in)'}
PROPS['C17']['nx'] = {'filefmt': 'bytes -> decode_file -> write round trip for 6 encoding / BOM cases: BOM decides and is preserved, decode inverse of encode, malformed input rejected, unencodable text rejected (bounded stand-in)'}
PROPS['C02'].setdefault('nx', {})['mlstring'] = 'the documented normalisation of valid multi-line strings (common indentation, line terminators) changes nothing else (bounded stand-in)'
PROPS['C10'].setdefault('nx', {})['mlstring'] = 'interior lines of re-indented multi-line strings get the same indentation strings (tabs or spaces) as every other line (bounded stand-in)'
_PIPE = 'end-to-end clause executed natively on the real pipeline (make_formatter(config).format) over an exhaustively enumerated small domain: bounded stand-in for the composition through parser and line-wrapping search, which no contract reaches'
for _pid in ('C01', 'C02', 'C03', 'C04', 'C05', 'C06', 'C07', 'C08', 'C09', 'C10', 'C11', 'C15'):
    PROPS[_pid].setdefault('nx', {})['pipeline'] = _PIPE
PROPS['C18'] = {
    'title': 'Batch formatting equals formatting each file alone, under any schedule',
    'level': 'exploration',
    'vx': {}, 'kx': {},
    'nx': {'filefmt': 'files mode on 36 files per invocation: every file gets the result it gets alone, failing files (undecodable, missing) are reported one by one and left untouched, for pool sizes 1, 2, 3, 8, four failure patterns, two repetitions (bounded stand-in; schedules are sampled, not enumerated)'},
    'not_decided': ['NOT A PROOF and NOT an exploration of schedules: Kani has no threads and Verus would need the code rewritten onto its permission types; the stand-in samples whatever interleavings rayon produces in 32 invocations',
                    'exit status wiring in main (the error handler only sets a flag - read)', 'the process-wide AtomicPtr cache of CPU detection in the scanner (covered functionally by NX avx2)'],
    'explanation': 'The property quantifies over schedules, which neither verifier can express for this code. The only claim is a bounded stand-in on FileFormatter::format_files '
                   '(exec_format: par_iter + map_init with a per-thread input buffer): native batches under several pool sizes compared with the single-file result.',
    'technique': STANDIN,
}
PROPS['C19'] = {
    'title': 'Configuration is resolved by a fixed precedence and rejects unknown settings',
    'level': 'exploration',
    'vx': {}, 'kx': {},
    'nx': {'config': 'the real CLI parser, layering and strict deserialisation executed natively with real files: -C over file over default for every assignment of 5 options, invalid settings rejected, nearest ancestor pasfmt.toml, --config-file must exist, files+stdin rejected (bounded stand-in)'},
    'not_decided': ['NOT A PROOF: bounded stand-in only (the precedence lives in config::ConfigBuilder, serde, clap and the file system)',
                    'the search from the real working directory; directory depths beyond 4; option values beyond the two per option that are enumerated',
                    'integer 0/1 given for a boolean option in the file is coerced by the config crate (accepted, not rejected) - left as is',
                    '"rejected before any file is touched": format() returns on the configuration error before the formatter is built (read, 6 lines)'],
    'explanation': 'No function-level contract of repository code can carry this property: it is the behaviour of three dependency crates and the file system glued together. '
                   'The only claim is a bounded stand-in that executes the real resolution natively over an exhaustively enumerated small domain.',
    'technique': STANDIN,
}
for _p in PROPS.values():
    _p.setdefault('level_text', _p.get('explanation', ''))

NOT_APPLICABLE = {
}

# Verus function -> Kani harnesses of the same function (run when only a proof hint of the Verus unit fails)
VX_KX_PAIRS = {
    'lexops/dec_number_literal': [('lexcomplex', 'verif_lex::lexcomplex_dec_number5')],
    'lexops/asm_number_literal': [('lexscan', 'verif_lex::lexscan_counts4')],
    'lexops/hex_number_literal': [('lexscan', 'verif_lex::lexscan_counts4')],
    'lexops/binary_number_literal': [('lexscan', 'verif_lex::lexscan_counts4')],
    'lexops/asm_text_literal': [('lexcomplex', 'verif_lex::lexcomplex_asm_text_literal')],
    'lexops/unicode_identifier': [('lexcomplex', 'verif_lex::lexcomplex_unicode_identifier')],
    'lexops/consume_pascal_str': [('lexcomplex', 'verif_lex::lexcomplex_text_literal3')],
    'lexops/consume_escaped_chars': [('lexcomplex', 'verif_lex::lexcomplex_text_literal3')],
    'lexops/text_literal': [('lexcomplex', 'verif_lex::lexcomplex_text_literal3')],
    'lexops/find_block_comment_end': [('lexcomplex', 'verif_lex::lexcomplex_block_brace4')],
    'lexops/_block_comment': [('lexcomplex', 'verif_lex::lexcomplex_block_brace4')],
    'lexops/block_comment': [('lexcomplex', 'verif_lex::lexcomplex_block_brace4')],
    'lexops/block_comment_alt': [('lexcomplex', 'verif_lex::lexcomplex_block_brace4')],
    'lexops/line_comment': [('lexcomplex', 'verif_lex::lexcomplex_line_comment5'), ('lexcomplex', 'verif_lex::lexcomplex_line_comment_kind_by_lf')],
    'lexops/ampersand': [('lexcomplex', 'verif_lex::lexcomplex_misc')],
    'lexloop/count_leading_whitespace': [('lexscan', 'verif_lex::lexscan_ws_ascii4'), ('lexscan', 'verif_lex::lexscan_ws_ideographic')],
    'wsarith/ReconstructionSettings::new': [('settings', 'verif_settings::settings_recon_spaces_2_2'), ('settings', 'verif_settings::settings_recon_tabs_4_3')],
}
