"""Which units decide which property, and how each property is reported.

A unit is either a VX unit (vx/units/<name>.py) or a KX unit (kx/units/<name>.json).
`role` strings are copied into the evidence so a reader can see what each unit
contributes to the property.
"""

PROPS = {
    'C13': {
        'title': 'Scanning is lossless and follows the Delphi lexical rules at any length',
        'level': 'proof',
        'vx': {
            'lexloop': 'scanner main loop for every input length: tokens concatenate to the input, one Eof last, '
                       'non-empty contents starting at a non-blank, split points on character boundaries, lex_complete cannot panic',
            'lexops': 'loop-free sub-scanners against the lexical rules for every length and offset; '
                      'each meets the clause the loop proof assumes of lex_token',
        },
        'kx': {
            'lexscan': 'scanning helpers (blank run, identifier end, digit runs) on bounded windows',
            'lextable': 'keyword table for every ASCII word per length; dispatch tables for every byte; to_final_token',
            'lexcomplex': 'looping sub-scanners (comments, literals, directives, identifiers) on bounded windows',
        },
        'not_decided': ['the AVX2 identifier routine and its run-time dispatch (intrinsics, unsafe)',
                        'composition dispatch-table + sub-scanner contracts => lex_token contract is an argument on paper'],
    },
}

# filled in further below as units come online

TRUSTED_BASE = [
    'Verus 0.2026.09.13 + Z3; vstd specifications of str/Vec/slice/Option/iterators (as_bytes, split_at, is_char_boundary, get, push, iter().rev())',
    'Kani 0.68.0 + CBMC 6.11 + CaDiCaL; Kani models of alloc/core as compiled for cfg(kani)',
    'VX extraction rules D1-D7 (attributes dropped, log macros -> (), basic_op! expanded from its macro_rules! body, std-trait impls re-emitted as inherent fns, str::len -> as_bytes().len(), functions outside the subset as signature + assumed contract, receiver projection); re-derived from /repo on every run',
    'KX injection: harness modules appended under cfg(kani), derive(kani::Arbitrary) on 14 plain enums of lang.rs; add-only, byte-equality of the rest re-checked on every run',
    'machine arithmetic is Rust fixed-width arithmetic in both tools (overflow is an obligation, not assumed away)',
    'unsafe AVX2 code (find_identifier_end_avx2) and its run-time dispatch are not verified',
]

PROPS['C13']['kx'] = {}   # KX units are added as they come online

PROPS['C07'] = {
    'title': 'Regions with formatting disabled and asm bodies are kept byte for byte',
    'level': 'model_checking',
    'vx': {},
    'kx': {
        'recon': 'reconstruct emits the original leading whitespace and content of an ignored token byte for byte, '
                 'for every kind of neighbouring token (incl. after single-line comments)',
    },
    'not_decided': ['parser classification of asm instruction lines', 'format_into_buf wiring (ignorers -> marker -> FormattedTokens)'],
    'explanation': 'function-level contracts on the verbatim path; composition through Formatter::format is by reading',
}

# properties not (or not yet) claimed; bin/mkmanifest lists those that are not in PROPS
NOT_APPLICABLE = {
    'C01': 'not yet wired in this revision (units recon/rewriters under construction)',
    'C02': 'not yet wired in this revision',
    'C03': 'not yet wired in this revision',
    'C04': 'not yet wired in this revision',
    'C05': 'not yet wired in this revision',
    'C06': 'not yet wired in this revision',
    'C08': 'not yet wired in this revision',
    'C09': 'not yet wired in this revision',
    'C10': 'not yet wired in this revision',
    'C11': 'not yet wired in this revision',
    'C12': 'the property is a contract on try_rewrite_string/lines_custom; Verus rejects its iterator/closure code and Kani did not finish even lines_custom alone on 6 bytes within 12 minutes (DESIGN.md 3, 6)',
    'C14': 'needs contracts on DirectiveTree pass construction and the parser token primitives; Verus rejects them (iterator-generic recursion, fn-pointer predicates) and Kani finished neither on 2-3 tokens (DESIGN.md 3, 6)',
    'C15': 'not yet wired in this revision',
    'C16': 'not yet wired in this revision',
    'C17': 'not yet wired in this revision',
    'C18': 'quantifies over schedules of a rayon pool: Kani has no threads, Verus would need the code rewritten onto its permission types (a model) (DESIGN.md 6)',
    'C19': 'precedence lives in config::ConfigBuilder, serde(deny_unknown_fields), clap and a directory walk on the real file system: no function-level contract of repository code can express it (DESIGN.md 6)',
}
