"""Replay files: what failed, and -- for KX obligations -- CBMC's counterexample
turned into a native unit test (Kani concrete playback) that executes the
repository code on those values."""
import json
import os
import re
import shutil
import subprocess
import sys
import time

VERIF = os.path.dirname(os.path.dirname(os.path.abspath(__file__)))
WORK = os.path.join(VERIF, '.work')

import kxrun  # noqa: E402


def _harness_of(oid):
    unit = oid.split('/')[0]
    p = os.path.join(VERIF, 'kx', 'units', unit + '.json')
    if not os.path.exists(p):
        return None, None, None
    with open(p) as f:
        desc = json.load(f)
    short = oid.split('/')[1]
    for h in desc['harnesses']:
        if h['name'].split('::')[-1] == short:
            return unit, desc, h
    return unit, desc, None


def _find_playback_tests(work):
    found = []
    for root, dirs, files in os.walk(work):
        dirs[:] = [d for d in dirs if d not in ('target', 'target-kani', '.git')]
        for fn in files:
            if fn.endswith('.rs'):
                p = os.path.join(root, fn)
                with open(p) as f:
                    s = f.read()
                for m in re.finditer(r'#\[test\]\s*\n\s*fn (kani_concrete_playback_\w+)\(\)', s):
                    # the test item: from #[test] to the matching brace
                    start = m.start()
                    i = s.index('{', m.end())
                    depth = 0
                    j = i
                    while j < len(s):
                        if s[j] == '{':
                            depth += 1
                        elif s[j] == '}':
                            depth -= 1
                            if depth == 0:
                                break
                        j += 1
                    found.append((os.path.relpath(p, work), m.group(1), s[start:j + 1]))
    return found


def kx_playback(repo, desc, h, keep_work=None):
    """-> dict(found, test_name, test_src, file, playback_out, generate_out)"""
    work = keep_work or os.path.join(WORK, 'replay-%d' % os.getpid())
    out = {'found': False}
    try:
        kxrun.prepare(repo, work)
        env = dict(os.environ, CARGO_NET_OFFLINE='true')
        cmd = ['cargo', 'kani', '-p', desc['crate'], '-Z', 'function-contracts', '-Z', 'stubbing', '-Z', 'concrete-playback',
               '--concrete-playback=inplace', '--harness', h['name'], '--output-format', 'terse',
               '--target-dir', os.path.join(work, 'target-kani')]
        try:
            p = subprocess.run(cmd, cwd=work, env=env, capture_output=True, text=True, timeout=2 * h.get('timeout', 600) + 300)
            out['generate_out'] = (p.stdout + p.stderr)[-4000:]
        except subprocess.TimeoutExpired:
            out['generate_out'] = 'timeout while generating the concrete playback test'
            return out
        tests = _find_playback_tests(work)
        if not tests:
            return out
        rel, name, src = tests[0]
        out.update({'file': rel, 'test_name': name, 'test_src': src, 'n_tests': len(tests)})
        short = h['name'].split('::')[-1]
        out['all_tests'] = [{'name': t[1], 'src': t[2]} for t in tests]
        cmd2 = ['cargo', 'kani', 'playback', '-Z', 'concrete-playback', '-p', desc['crate'], '--', 'kani_concrete_playback_' + short]
        env2 = dict(env, CARGO_TARGET_DIR=os.path.join(work, 'target-playback'))
        try:
            p2 = subprocess.run(cmd2, cwd=work, env=env2, capture_output=True, text=True, timeout=1200)
            txt = p2.stdout + p2.stderr
            out['playback_cmd'] = ' '.join(cmd2)
            out['playback_rc'] = p2.returncode
            out['playback_out'] = txt[-6000:]
            out['found'] = p2.returncode != 0 and ('panicked at' in txt or 'FAILED' in txt)
        except subprocess.TimeoutExpired:
            out['playback_out'] = 'timeout during playback'
    finally:
        if not keep_work:
            shutil.rmtree(work, ignore_errors=True)
    return out


_PB_CACHE = {}


def make_replay(prop, oid, details, repo, tier, unit_results, kx_res):
    os.makedirs(os.path.join(VERIF, 'replays'), exist_ok=True)
    path = os.path.join(VERIF, 'replays', '%s-%s-%d.json' % (prop, re.sub(r'[^A-Za-z0-9_.-]', '_', oid), int(time.time())))
    rec = {'property': prop, 'obligation': oid, 'tier': tier, 'verifier_output': details, 'tree_hash': kxrun.tree_hash(repo)}
    found = False
    nxp = os.path.join(VERIF, 'nx', 'units', oid.split('/')[0] + '.json')
    if os.path.exists(nxp):
        # native execution of the real code already produced the failing input: it is in the panic message
        with open(nxp) as f:
            nd = json.load(f)
        rec['engine'] = 'NX'
        rec['crate'] = nd['crate']
        rec['test'] = next((t['name'] for t in nd['tests'] if t['name'].split('::')[-1] == oid.split('/')[1]), None)
        rec['failing_input'] = details
        rec['rerun'] = 'in a work copy prepared by lib/kxrun.prepare: RUSTFLAGS="--cfg verif_nx" cargo test -p %s --lib --offline -- %s' % (nd['crate'], rec['test'])
        rec['replayed_against_real_code'] = True
        with open(path, 'w') as f:
            json.dump(rec, f, indent=1)
        return path, True
    unit, desc, h = _harness_of(oid)
    if desc is not None and h is not None:
        rec['engine'] = 'KX'
        rec['harness'] = h['name']
        rec['crate'] = desc['crate']
        if os.environ.get('VERIF_NO_PLAYBACK'):
            _PB_CACHE[h['name']] = {'found': False, 'note': 'playback skipped (VERIF_NO_PLAYBACK set)'}
        if h['name'] not in _PB_CACHE:
            _PB_CACHE[h['name']] = kx_playback(repo, desc, h)
        pb = _PB_CACHE[h['name']]
        rec['playback'] = pb
        found = pb.get('found', False)
    else:
        rec['engine'] = 'VX'
        u = oid.split('/')[0]
        r = unit_results.get(u, {})
        rec['verus_cmd'] = r.get('cmd')
        fn = oid.split('/')[1] if '/' in oid else ''
        for f in r.get('functions', []):
            if f['name'] == fn:
                rec['function'] = f
        # keep the generated file next to the replay so the obligation can be inspected
        src = r.get('file')
        if src and os.path.exists(src):
            dst = path[:-5] + '.rs'
            shutil.copy(src, dst)
            rec['verus_file'] = dst
        rec['note'] = 'Verus gives no model; no concrete input was found for this obligation'
    rec['replayed_against_real_code'] = found
    with open(path, 'w') as f:
        json.dump(rec, f, indent=1)
    return path, found


def run_replay(path):
    with open(path) as f:
        rec = json.load(f)
    repo = os.environ.get('VERIF_REPO', '/repo')
    print('replay of %s / %s (%s)' % (rec['property'], rec['obligation'], rec.get('engine')))
    if rec.get('engine') == 'KX' and rec.get('playback', {}).get('test_src'):
        pb = rec['playback']
        work = os.path.join(WORK, 'replay-%d' % os.getpid())
        try:
            kxrun.prepare(repo, work)
            p = os.path.join(work, pb['file'])
            with open(p) as f:
                s = f.read()
            # insert the saved test at the end of the harness module that contains the harness
            short = rec['harness'].split('::')[-1]
            k = s.find('fn ' + short + '(')
            if k < 0:
                print('harness %s no longer present' % short)
                return 2
            end = s.find(kxrun.END, k)
            close = s.rfind('}', k, end)
            s = s[:close] + '\n'.join(t['src'] for t in pb.get('all_tests', [{'src': pb['test_src']}])) + '\n' + s[close:]
            with open(p, 'w') as f:
                f.write(s)
            env = dict(os.environ, CARGO_NET_OFFLINE='true')
            env['CARGO_TARGET_DIR'] = os.path.join(work, 'target-playback')
            cmd = ['cargo', 'kani', 'playback', '-Z', 'concrete-playback', '-p', rec['crate'], '--', 'kani_concrete_playback_' + short]
            p2 = subprocess.run(cmd, cwd=work, env=env, capture_output=True, text=True, timeout=1800)
            txt = p2.stdout + p2.stderr
            print(txt[-3000:])
            if p2.returncode != 0 and ('panicked at' in txt or 'FAILED' in txt):
                print('VIOLATION property=%s replay=%s' % (rec['property'], path))
                return 1
            print('replay did not fail on this tree')
            return 0
        finally:
            shutil.rmtree(work, ignore_errors=True)
    if rec.get('engine') == 'NX':
        import nxrun
        work = os.path.join(WORK, 'replay-%d' % os.getpid())
        try:
            kxrun.prepare(repo, work, shim=False)
            r = nxrun.run_tests(work, rec['crate'], [])
            hit = [v for k, v in r['tests'].items() if k.endswith('::' + rec['test'])]
            if hit and hit[0]['status'] == 'FAILED':
                print(hit[0].get('message', '')[:2000])
                print('VIOLATION property=%s replay=%s' % (rec['property'], path))
                return 1
            print('stand-in test passes on this tree' if hit else 'test not found')
            return 0 if hit else 2
        finally:
            shutil.rmtree(work, ignore_errors=True)
    # VX (or KX without a playback test): re-run the unit and report the obligation
    import vxrun
    unit = rec['obligation'].split('/')[0]
    if os.path.exists(os.path.join(VERIF, 'vx', 'units', unit + '.py')):
        r = vxrun.run_unit(unit, repo, os.path.join(WORK, 'replay-vx-%d' % os.getpid()), with_canary=False)
        if rec['obligation'] in r['failed']:
            print('\n'.join(r['failed'][rec['obligation']]))
            print('VIOLATION property=%s replay=%s no-failing-input-found' % (rec['property'], path))
            return 1
        if r['undecided']:
            print('UNDECIDED', r['undecided'])
            return 2
        print('obligation is discharged on this tree')
        return 0
    print(json.dumps(rec.get('verifier_output'), indent=1))
    return 2
