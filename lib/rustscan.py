"""Comment/string/char/lifetime-aware scanning of Rust source text.

Used by the VX extractor (pull items byte-for-byte out of /repo) and by the KX
injector (find the line after an item).  No parsing beyond bracket matching.
"""
import re


class ScanError(Exception):
    pass


def _skip_trivia_and_literals(src, i):
    """If src[i:] starts a comment / string / char literal / raw string,
    return the index just after it; otherwise return None."""
    c = src[i]
    n = len(src)
    if c == '/' and i + 1 < n:
        if src[i + 1] == '/':
            j = src.find('\n', i)
            return n if j < 0 else j
        if src[i + 1] == '*':
            depth = 1
            j = i + 2
            while j < n and depth:
                if src.startswith('/*', j):
                    depth += 1
                    j += 2
                elif src.startswith('*/', j):
                    depth -= 1
                    j += 2
                else:
                    j += 1
            return j
    if c == '"':
        j = i + 1
        while j < n:
            if src[j] == '\\':
                j += 2
                continue
            if src[j] == '"':
                return j + 1
            j += 1
        raise ScanError("unterminated string at %d" % i)
    if c in 'rb':
        # raw strings r"..", r#".."#, br".."; byte strings b".."; byte chars b'x'
        m = re.match(r'b?r(#*)"', src[i:i + 40])
        if m and (i == 0 or not (src[i - 1].isalnum() or src[i - 1] == '_')):
            hashes = m.group(1)
            end = src.find('"' + hashes, i + m.end())
            if end < 0:
                raise ScanError("unterminated raw string at %d" % i)
            return end + 1 + len(hashes)
        if c == 'b' and i + 1 < n and src[i + 1] == '"' and (i == 0 or not (src[i - 1].isalnum() or src[i - 1] == '_')):
            return _skip_trivia_and_literals(src, i + 1)
        if c == 'b' and i + 1 < n and src[i + 1] == "'" and (i == 0 or not (src[i - 1].isalnum() or src[i - 1] == '_')):
            return _skip_trivia_and_literals(src, i + 1)
    if c == "'":
        # char literal or lifetime
        if i + 1 < n and src[i + 1] == '\\':
            j = src.find("'", i + 3)
            # '\'' : the escaped quote itself
            if src[i + 2] == "'":
                j = src.find("'", i + 3)
            if j < 0:
                raise ScanError("unterminated char at %d" % i)
            return j + 1
        # 'x' (any single char, possibly multi-byte in python = 1 char)
        if i + 2 < n and src[i + 2] == "'":
            return i + 3
        # lifetime: skip the tick only
        return i + 1
    return None


def match_close(src, open_idx):
    """src[open_idx] is one of ([{ ; return index of the matching closer."""
    pairs = {'(': ')', '[': ']', '{': '}'}
    stack = []
    i = open_idx
    n = len(src)
    while i < n:
        j = _skip_trivia_and_literals(src, i)
        if j is not None:
            i = j
            continue
        c = src[i]
        if c in pairs:
            stack.append(pairs[c])
        elif c in ')]}':
            if not stack or stack[-1] != c:
                raise ScanError("unbalanced %r at %d" % (c, i))
            stack.pop()
            if not stack:
                return i
        i += 1
    raise ScanError("no closer for %d" % open_idx)


def find_body_open(src, start):
    """From `start` (inside an item header) find the first `{` or `;` at
    bracket depth 0 (parentheses, square brackets, angle brackets ignored
    since `{` cannot occur inside a type unless nested in () or []).
    Returns (index, char)."""
    i = start
    n = len(src)
    depth = 0
    while i < n:
        j = _skip_trivia_and_literals(src, i)
        if j is not None:
            i = j
            continue
        c = src[i]
        if c in '([':
            depth += 1
        elif c in ')]':
            depth -= 1
        elif depth == 0 and c in '{;':
            return i, c
        i += 1
    raise ScanError("no body after %d" % start)


class Item:
    def __init__(self, src, start, header_start, body_open, end):
        self.src = src
        self.start = start              # including leading attributes/docs
        self.header_start = header_start
        self.body_open = body_open      # index of '{' (or ';')
        self.end = end                  # exclusive

    @property
    def text(self):
        return self.src[self.header_start:self.end]

    @property
    def full_text(self):
        return self.src[self.start:self.end]

    @property
    def header(self):
        return self.src[self.header_start:self.body_open]

    @property
    def body(self):
        return self.src[self.body_open:self.end]

    def line(self):
        return self.src.count('\n', 0, self.header_start) + 1


def find_item(src, header_re, nth=0, within=None):
    """Locate the item whose header matches header_re (multi-line regex, must
    match at a line start modulo indentation).  `within` = (lo, hi) restricts
    the search range (used for methods inside an impl)."""
    lo, hi = within if within else (0, len(src))
    rx = re.compile(header_re, re.M)
    pos = lo
    k = 0
    while True:
        m = rx.search(src, pos, hi)
        if not m:
            raise ScanError("item not found: %s (nth=%d)" % (header_re, nth))
        # reject matches inside comments / strings: cheap check — the line
        # must not start with // and we re-scan from line start
        ls = src.rfind('\n', 0, m.start()) + 1
        if src[ls:m.start()].strip().startswith('//'):
            pos = m.end()
            continue
        if k < nth:
            k += 1
            pos = m.end()
            continue
        break
    header_start = m.start()
    bo, ch = find_body_open(src, header_start)
    if ch == ';':
        end = bo + 1
    else:
        end = match_close(src, bo) + 1
        # `struct X { } ` no trailing ; ; `const X: T = [ ... ];` handled by ';' path
    start = src.rfind('\n', 0, header_start) + 1
    return Item(src, start, header_start, bo, end)


def const_item(src, header_re, within=None):
    """`const NAME: T = ...;` / `type X = ...;` / `static` — ends at the `;`
    at depth 0."""
    lo, hi = within if within else (0, len(src))
    m = re.compile(header_re, re.M).search(src, lo, hi)
    if not m:
        raise ScanError("const not found: %s" % header_re)
    i = m.end()
    n = len(src)
    depth = 0
    while i < n:
        j = _skip_trivia_and_literals(src, i)
        if j is not None:
            i = j
            continue
        c = src[i]
        if c in '([{':
            depth += 1
        elif c in ')]}':
            depth -= 1
        elif c == ';' and depth == 0:
            ls = src.rfind('\n', 0, m.start()) + 1
            return Item(src, ls, m.start(), i, i + 1)
        i += 1
    raise ScanError("no ; for const %s" % header_re)


def strip_line_comments(text):
    """Remove `//` comments (not inside strings) — used only on text that is
    emitted to Verus, because Verus' macro sees tokens and comments are
    irrelevant; keeps line structure."""
    out = []
    i = 0
    n = len(text)
    while i < n:
        if text.startswith('//', i):
            j = text.find('\n', i)
            if j < 0:
                j = n
            i = j
            continue
        j = _skip_trivia_and_literals(text, i)
        if j is not None:
            out.append(text[i:j])
            i = j
            continue
        out.append(text[i])
        i += 1
    return ''.join(out)


def top_level_statements(body):
    """body = '{ ... }' text of a block.  Yields (start, end) offsets (relative
    to body) of each top-level statement start (first non-space char) inside
    the outermost braces.  Statement boundaries: `;` at depth 0 or a closing
    `}` at depth 0 that ends a block-like statement."""
    assert body[0] == '{'
    i = 1
    n = len(body) - 1
    res = []
    stmt_start = None
    depth = 0
    while i < n:
        j = _skip_trivia_and_literals(body, i)
        if j is not None:
            if stmt_start is None and not body.startswith('//', i) and not body.startswith('/*', i):
                stmt_start = i
            i = j
            continue
        c = body[i]
        if stmt_start is None and not c.isspace():
            stmt_start = i
        if c in '([{':
            depth += 1
        elif c in ')]}':
            depth -= 1
            if depth == 0 and c == '}':
                # block-like statement ends unless followed by `else`, `.`, `?`, `;`, `)` ...
                k = i + 1
                while k < n and body[k].isspace():
                    k += 1
                rest = body[k:k + 5]
                if not (rest.startswith('else') or rest[:1] in '.?;,)=' or rest[:2] in ('as',)):
                    res.append((stmt_start, i + 1))
                    stmt_start = None
        elif c == ';' and depth == 0:
            res.append((stmt_start, i + 1))
            stmt_start = None
        i += 1
    if stmt_start is not None:
        res.append((stmt_start, n))
    return res
