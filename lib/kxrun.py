"""Engine KX: Kani on a work copy of /repo into which harness modules are
injected (lines are only ever ADDED, all under cfg(kani)).

kx/inject.json   : what is appended to / inserted into which repository file
kx/harness/*.rs  : the harness module texts
kx/units/*.json  : per unit: crate, harness list with tier / timeout / kind / bound
"""
import hashlib
import json
import os
import re
import shutil
import subprocess
import sys
import time

VERIF = os.path.dirname(os.path.dirname(os.path.abspath(__file__)))

SRC_DIRS = ['core', 'orchestrator', 'front-end', 'Cargo.toml', 'Cargo.lock']


def tree_hash(repo):
    h = hashlib.sha256()
    files = []
    for d in SRC_DIRS:
        p = os.path.join(repo, d)
        if os.path.isfile(p):
            files.append(p)
        else:
            for root, dirs, fs in os.walk(p):
                dirs[:] = [x for x in dirs if x not in ('target', '.git')]
                for f in fs:
                    if f.endswith(('.rs', '.toml', '.lock')):
                        files.append(os.path.join(root, f))
    for f in sorted(files):
        h.update(os.path.relpath(f, repo).encode())
        with open(f, 'rb') as fh:
            h.update(fh.read())
    return h.hexdigest()[:16]


def load_inject():
    with open(os.path.join(VERIF, 'kx', 'inject.json')) as f:
        return json.load(f)


BEGIN = '// >>> verif-injected (cfg(kani) only) >>>\n'
END = '// <<< verif-injected <<<\n'


def prepare(repo, work):
    """Copy the repository sources and inject.  Returns a report dict; raises
    RuntimeError('lost anchor ...') if an insertion anchor is missing."""
    if os.path.exists(work):
        shutil.rmtree(work)
    os.makedirs(work)
    subprocess.run(['rsync', '-a', '--exclude', 'target', '--exclude', '.git', '--exclude', 'web', '--exclude', 'misc',
                    '--exclude', 'docs', repo.rstrip('/') + '/', work + '/'], check=True)
    inj = load_inject()
    report = {'files': {}, 'added_lines': 0}
    touched = {}
    # 1. appended modules
    for rel, parts in inj['append'].items():
        p = os.path.join(work, rel)
        with open(p) as f:
            orig = f.read()
        text = orig
        if not text.endswith('\n'):
            text += '\n'
        for part in parts:
            with open(os.path.join(VERIF, 'kx', 'harness', part)) as f:
                body = f.read()
            text += BEGIN + body + ('' if body.endswith('\n') else '\n') + END
        touched[rel] = (orig, text)
    # 2. attribute lines inserted before items matched by a regex (whole-line anchors)
    for rule in inj.get('insert_before', []):
        rel = rule['file']
        orig, text = touched.get(rel, (None, None))
        if text is None:
            with open(os.path.join(work, rel)) as f:
                orig = f.read()
            text = orig
        rx = re.compile(rule['anchor'], re.M)
        hits = list(rx.finditer(text))
        if len(hits) != rule['expect']:
            raise RuntimeError('lost anchor: %s matches %d times in %s, expected %d' % (rule['anchor'], len(hits), rel, rule['expect']))
        for m in reversed(hits):
            ls = text.rfind('\n', 0, m.start()) + 1
            indent = re.match(r'[ \t]*', text[ls:]).group(0)
            text = text[:ls] + indent + rule['line'] + ' // verif-injected-line\n' + text[ls:]
        touched[rel] = (orig, text)
    for rel, (orig, text) in touched.items():
        # add-only check: removing what we added gives back the repository file byte for byte
        back = re.sub(re.escape(BEGIN) + r'.*?' + re.escape(END), '', text, flags=re.S)
        back = re.sub(r'(?m)^.*// verif-injected-line\n', '', back)
        if back != orig and back != orig + '\n':
            raise RuntimeError('injection is not add-only for ' + rel)
        with open(os.path.join(work, rel), 'w') as f:
            f.write(text)
        report['files'][rel] = text.count('\n') - orig.count('\n')
        report['added_lines'] += report['files'][rel]
    # 3. memchr shim through [patch.crates-io] (Cargo.toml: lines appended)
    shim = os.path.join(work, '.verif-shim')
    shutil.copytree(os.path.join(VERIF, 'kx', 'shim'), shim)
    with open(os.path.join(work, 'Cargo.toml'), 'a') as f:
        f.write('\n[patch.crates-io]\nmemchr = { path = ".verif-shim/memchr" }\n')
    os.makedirs(os.path.join(work, '.cargo'), exist_ok=True)
    with open(os.path.join(work, '.cargo', 'config.toml'), 'w') as f:
        f.write('[net]\noffline = true\n')
    # drop workspace members we excluded from the copy
    with open(os.path.join(work, 'Cargo.toml')) as f:
        ct = f.read()
    ct2 = ct.replace('    "web",\n', '')
    with open(os.path.join(work, 'Cargo.toml'), 'w') as f:
        f.write(ct2)
    report['stubs'] = ['memchr crate replaced by kx/shim/memchr (naive loops) via [patch.crates-io]']
    return report


HARNESS_RX = re.compile(r'^Checking harness ([^\s.]+(?:::[^\s.]+)*)\.\.\.', re.M)


def parse_output(text):
    """Split Kani's regular output into per-harness results."""
    res = {}
    marks = list(HARNESS_RX.finditer(text))
    for i, m in enumerate(marks):
        name = m.group(1)
        seg = text[m.end():marks[i + 1].start() if i + 1 < len(marks) else len(text)]
        res[name] = parse_segment(seg)
    return res


CHECK_RX = re.compile(r'^Check \d+: (\S+)\n\s+- Status: (\w+)\n\s+- Description: "+(.*?)"+\n(?:\s+- Location: ([^\n]*)\n)?', re.M)


def parse_segment(seg):
    r = {'checks': 0, 'failed_checks': [], 'covers': [], 'status': 'unknown', 'unwind_failed': False,
         'unreachable': 0, 'undetermined': 0, 'obligations': {}, 'time_s': None}
    for m in CHECK_RX.finditer(seg):
        cid, status, desc, loc = m.group(1), m.group(2), m.group(3), m.group(4) or ''
        if '.cover.' in cid or cid.endswith('.cover'):
            r['covers'].append((desc, status))
            continue
        r['checks'] += 1
        ob = re.match(r'OB ([^:\s]+)', desc)
        if ob:
            st = r['obligations'].setdefault(ob.group(1), {'n': 0, 'failed': 0, 'unreachable': 0})
            st['n'] += 1
            if status == 'FAILURE':
                st['failed'] += 1
            if status == 'UNREACHABLE':
                st['unreachable'] += 1
        if status == 'FAILURE':
            if 'unwinding assertion' in desc:
                r['unwind_failed'] = True
            r['failed_checks'].append({'id': cid, 'desc': desc, 'loc': loc.strip()})
        elif status == 'UNREACHABLE':
            r['unreachable'] += 1
        elif status == 'UNDETERMINED':
            r['undetermined'] += 1
    m = re.search(r'VERIFICATION:- (\w+)', seg)
    if m:
        r['status'] = m.group(1)
    m = re.search(r'Verification Time: ([\d.]+)s', seg)
    if m:
        r['time_s'] = float(m.group(1))
    if 'CBMC failed' in seg or 'CBMC timed out' in seg or 'timed out' in seg.lower():
        r['status'] = 'TIMEOUT' if 'timed out' in seg.lower() else r['status']
    if re.search(r'out of memory|std::bad_alloc|Killed', seg):
        r['status'] = 'OOM'
    return r


def run_kani(work, crate, harnesses, jobs=8, harness_timeout=900, extra=None, log=None, wall_timeout=None):
    """One cargo-kani invocation for several harnesses of one crate.
    harnesses: list of fully qualified names.  Per-harness output goes to files."""
    cmd = ['cargo', 'kani', '-p', crate, '-Z', 'function-contracts', '-Z', 'stubbing', '-Z', 'unstable-options',
           '--harness-timeout', '%ds' % harness_timeout, '-j', str(jobs), '--output-format', 'terse',
           '--target-dir', os.path.join(work, 'target-kani')]
    for h in harnesses:
        cmd += ['--harness', h]
    if extra:
        cmd += extra
    env = dict(os.environ)
    env['CARGO_NET_OFFLINE'] = 'true'
    t0 = time.time()
    try:
        p = subprocess.run(cmd, cwd=work, env=env, capture_output=True, text=True,
                           timeout=wall_timeout or (harness_timeout * (1 + len(harnesses) // max(1, jobs)) + 600))
        out = p.stdout + '\n' + p.stderr
        rc = p.returncode
    except subprocess.TimeoutExpired as e:
        out = (e.stdout or b'').decode(errors='replace') if isinstance(e.stdout, bytes) else (e.stdout or '')
        out += '\n[wall timeout]\n'
        rc = -9
    if log:
        with open(log, 'w') as f:
            f.write(' '.join(cmd) + '\n' + out)
    return {'rc': rc, 'out': out, 'wall_s': time.time() - t0, 'cmd': ' '.join(cmd)}


def collect_harness_files(work, crate):
    """--output-into-files writes <target>/.../<harness>/... ; find them."""
    found = {}
    base = os.path.join(work, 'target-kani')
    for root, dirs, files in os.walk(base):
        for f in files:
            if f.endswith('.log') or f.endswith('.txt') or f.endswith('.out'):
                found[os.path.join(root, f)] = True
    return list(found)


if __name__ == '__main__':
    # dev: kxrun.py <repo> <crate> <harness>...
    repo = sys.argv[1] if len(sys.argv) > 1 else '/repo'
    work = os.path.join(VERIF, '.work', 'kx-dev')
    print(json.dumps(prepare(repo, work), indent=1))
    if len(sys.argv) > 3:
        r = run_kani(work, sys.argv[2], sys.argv[3:], jobs=8, harness_timeout=900, log='/tmp/kxdev.log')
        print(r['rc'], r['wall_s'])
        print(r['out'][-3000:])
