"""Engine KX: Kani on a work copy of /repo into which harness modules are
injected (lines are only ever ADDED, all under cfg(kani)).

kx/inject.json   : what is appended to / inserted into which repository file
kx/harness/*.rs  : the harness module texts
kx/units/*.json  : per unit: crate, harness list with tier / timeout / kind / bound
"""
import hashlib
import json
import os
import re
import shutil
import subprocess
import sys
import time

VERIF = os.path.dirname(os.path.dirname(os.path.abspath(__file__)))

SRC_DIRS = ['core', 'orchestrator', 'front-end', 'Cargo.toml', 'Cargo.lock']


def tree_hash(repo):
    h = hashlib.sha256()
    files = []
    for d in SRC_DIRS:
        p = os.path.join(repo, d)
        if os.path.isfile(p):
            files.append(p)
        else:
            for root, dirs, fs in os.walk(p):
                dirs[:] = [x for x in dirs if x not in ('target', '.git')]
                for f in fs:
                    if f.endswith(('.rs', '.toml', '.lock')):
                        files.append(os.path.join(root, f))
    for f in sorted(files):
        h.update(os.path.relpath(f, repo).encode())
        with open(f, 'rb') as fh:
            h.update(fh.read())
    # the machinery itself is part of the key: a changed harness must not reuse an old result
    mach = []
    for d in ('kx', 'nx', 'lib'):
        for root, dirs, fs in os.walk(os.path.join(VERIF, d)):
            dirs[:] = [x for x in dirs if x != '__pycache__']
            for f in fs:
                if not f.endswith('.pyc'):
                    mach.append(os.path.join(root, f))
    for f in sorted(mach):
        h.update(os.path.relpath(f, VERIF).encode())
        with open(f, 'rb') as fh:
            h.update(fh.read())
    return h.hexdigest()[:16]


def load_inject():
    with open(os.path.join(VERIF, 'kx', 'inject.json')) as f:
        return json.load(f)


BEGIN = '// >>> verif-injected (cfg(kani) only) >>>\n'
END = '// <<< verif-injected <<<\n'


def prepare(repo, work, shim=True):
    """Copy the repository sources and inject.  Returns a report dict; raises
    RuntimeError('lost anchor ...') if an insertion anchor is missing."""
    if os.path.exists(work):
        shutil.rmtree(work)
    os.makedirs(work)
    subprocess.run(['rsync', '-a', '--exclude', 'target', '--exclude', '.git', '--exclude', 'web', '--exclude', 'misc',
                    '--exclude', 'docs', repo.rstrip('/') + '/', work + '/'], check=True)
    inj = load_inject()
    report = {'files': {}, 'added_lines': 0}
    touched = {}
    # 1. appended modules
    for rel, parts in inj['append'].items():
        p = os.path.join(work, rel)
        with open(p) as f:
            orig = f.read()
        text = orig
        if not text.endswith('\n'):
            text += '\n'
        for part in parts:
            with open(os.path.join(VERIF, 'kx', 'harness', part)) as f:
                body = f.read()
            text += BEGIN + body + ('' if body.endswith('\n') else '\n') + END
        touched[rel] = (orig, text)
    # 2. attribute lines inserted before items matched by a regex (whole-line anchors)
    for rule in inj.get('insert_before', []):
        rel = rule['file']
        orig, text = touched.get(rel, (None, None))
        if text is None:
            with open(os.path.join(work, rel)) as f:
                orig = f.read()
            text = orig
        rx = re.compile(rule['anchor'], re.M)
        hits = list(rx.finditer(text))
        if len(hits) != rule['expect']:
            raise RuntimeError('lost anchor: %s matches %d times in %s, expected %d' % (rule['anchor'], len(hits), rel, rule['expect']))
        for m in reversed(hits):
            ls = text.rfind('\n', 0, m.start()) + 1
            indent = re.match(r'[ \t]*', text[ls:]).group(0)
            text = text[:ls] + indent + rule['line'] + ' // verif-injected-line\n' + text[ls:]
        touched[rel] = (orig, text)
    for rel, (orig, text) in touched.items():
        # add-only check: removing what we added gives back the repository file byte for byte
        back = re.sub(re.escape(BEGIN) + r'.*?' + re.escape(END), '', text, flags=re.S)
        back = re.sub(r'(?m)^.*// verif-injected-line\n', '', back)
        if back != orig and back != orig + '\n':
            raise RuntimeError('injection is not add-only for ' + rel)
        with open(os.path.join(work, rel), 'w') as f:
            f.write(text)
        report['files'][rel] = text.count('\n') - orig.count('\n')
        report['added_lines'] += report['files'][rel]
    # 3. memchr shim through [patch.crates-io] (Cargo.toml: lines appended)
    if shim:
        # Kani only: the real memchr crate dispatches on CPUID / SIMD, which CBMC cannot execute.
        # Native (NX) runs use the real crate.
        shimdir = os.path.join(work, '.verif-shim')
        shutil.copytree(os.path.join(VERIF, 'kx', 'shim'), shimdir)
        with open(os.path.join(work, 'Cargo.toml'), 'a') as f:
            f.write('\n[patch.crates-io]\nmemchr = { path = ".verif-shim/memchr" }\n')
    os.makedirs(os.path.join(work, '.cargo'), exist_ok=True)
    with open(os.path.join(work, '.cargo', 'config.toml'), 'w') as f:
        f.write('[net]\noffline = true\n')
    # drop workspace members we excluded from the copy
    with open(os.path.join(work, 'Cargo.toml')) as f:
        ct = f.read()
    ct2 = ct.replace('    "web",\n', '')
    with open(os.path.join(work, 'Cargo.toml'), 'w') as f:
        f.write(ct2)
    report['stubs'] = ['memchr crate replaced by kx/shim/memchr (naive loops) via [patch.crates-io]'] if shim else []
    return report


def parse_output(text):
    """Per-harness results from Kani's terse output (with or without -j)."""
    res = {}
    cur_of_thread = {}
    active = None
    seg = {}
    for line in text.split('\n'):
        m = re.match(r'^(?:Thread (\d+): )?Checking harness (\S+?)\.\.\.\s*$', line)
        if m:
            tid = m.group(1) or '0'
            cur_of_thread[tid] = m.group(2)
            seg.setdefault(m.group(2), [])
            if m.group(1) is None:
                active = m.group(2)
            continue
        m = re.match(r'^Thread (\d+):\s*$', line)
        if m:
            active = cur_of_thread.get(m.group(1))
            continue
        if line.startswith('Manual Harness Summary') or line.startswith('Complete - '):
            active = None
        if active is not None:
            seg[active].append(line)
    for name, lines in seg.items():
        res[name] = parse_segment('\n'.join(lines))
    # harnesses named in the final summary as failed but without a segment verdict
    for m in re.finditer(r'^Verification failed for - (\S+)', text, re.M):
        res.setdefault(m.group(1), parse_segment(''))
        if res[m.group(1)]['status'] == 'unknown':
            res[m.group(1)]['status'] = 'FAILED'
    return res


def parse_segment(seg):
    r = {'checks': 0, 'n_failed': 0, 'failed_checks': [], 'covers': None, 'status': 'unknown', 'unwind_failed': False,
         'unreachable': 0, 'time_s': None, 'raw_tail': seg[-1500:]}
    m = re.search(r'\*\* (\d+) of (\d+) failed(?: \((\d+) (?:unreachable|undetermined))?', seg)
    if m:
        r['n_failed'] = int(m.group(1))
        r['checks'] = int(m.group(2))
        r['unreachable'] = int(m.group(3) or 0)
    m = re.search(r'\*\* (\d+) of (\d+) cover properties satisfied', seg)
    if m:
        r['covers'] = (int(m.group(1)), int(m.group(2)))
    for m in re.finditer(r'^Failed Checks: (.*)\n\s*File: "([^"]*)", line (\d+), in (\S+)', seg, re.M):
        desc = m.group(1).strip().strip('"')
        if 'unwinding assertion' in desc:
            r['unwind_failed'] = True
        r['failed_checks'].append({'desc': desc, 'loc': '%s:%s in %s' % (m.group(2), m.group(3), m.group(4))})
    for m in re.finditer(r'^Failed Checks: (.*)$', seg, re.M):
        desc = m.group(1).strip().strip('"')
        if not any(fc['desc'] == desc for fc in r['failed_checks']):
            r['failed_checks'].append({'desc': desc, 'loc': ''})
            if 'unwinding assertion' in desc:
                r['unwind_failed'] = True
    m = re.search(r'VERIFICATION:- (\w+)', seg)
    if m:
        r['status'] = m.group(1)
    m = re.search(r'Verification Time: ([\d.]+)s', seg)
    if m:
        r['time_s'] = float(m.group(1))
    low = seg.lower()
    if 'timed out' in low or 'timeout' in low:
        r['status'] = 'TIMEOUT'
    elif re.search(r'out of memory|bad_alloc', low):
        r['status'] = 'OOM'
    elif 'cbmc failed' in low and not r['failed_checks']:
        r['status'] = 'ERROR'
    return r


def run_kani(work, crate, harnesses, jobs=8, harness_timeout=900, extra=None, log=None, wall_timeout=None, rss_limit_gb=12.0):
    """One cargo-kani invocation for several harnesses of one crate.
    harnesses: list of fully qualified names.  Per-harness output goes to files."""
    cmd = ['cargo', 'kani', '-p', crate, '-Z', 'function-contracts', '-Z', 'stubbing', '-Z', 'unstable-options',
           '--harness-timeout', '%ds' % harness_timeout, '-j', str(jobs), '--output-format', 'terse',
           '--target-dir', os.path.join(work, 'target-kani')]
    for h in harnesses:
        cmd += ['--harness', h]
    if extra:
        cmd += extra
    env = dict(os.environ)
    env['CARGO_NET_OFFLINE'] = 'true'
    t0 = time.time()
    limit = wall_timeout or (harness_timeout * (1 + len(harnesses) // max(1, jobs)) + 600)
    killed = []
    import tempfile
    import threading
    of = tempfile.TemporaryFile(mode='w+')
    p = subprocess.Popen(cmd, cwd=work, env=env, stdout=of, stderr=subprocess.STDOUT, text=True, start_new_session=True)

    def watchdog():
        # no swap on this machine: a CBMC run that outgrows its share is killed and reported as undecided
        while p.poll() is None:
            time.sleep(5)
            procs = []
            try:
                for pid in os.listdir('/proc'):
                    if not pid.isdigit():
                        continue
                    try:
                        with open('/proc/%s/stat' % pid) as f:
                            st = f.read()
                        rest = st[st.rindex(')') + 2:].split()
                        sid = int(rest[3])
                        comm = st[st.index('(') + 1:st.rindex(')')]
                        if sid != p.pid or comm != 'cbmc':
                            continue
                        rss_gb = int(rest[21]) * 4096 / 1e9
                        procs.append((rss_gb, int(pid)))
                        if rss_gb > rss_limit_gb:
                            os.kill(int(pid), 9)
                            killed.append((pid, round(rss_gb, 1)))
                    except (OSError, ValueError, IndexError):
                        continue
                # machine-wide guard: no swap here, so when little memory is left the largest CBMC of this run is given up
                with open('/proc/meminfo') as f:
                    mi = f.read()
                m = re.search(r'MemAvailable:\s+(\d+) kB', mi)
                if m and int(m.group(1)) < 4 * 1024 * 1024 and procs:
                    big = max(procs)
                    os.kill(big[1], 9)
                    killed.append((str(big[1]), round(big[0], 1), 'low system memory'))
            except OSError:
                pass
    th = threading.Thread(target=watchdog, daemon=True)
    th.start()
    try:
        p.wait(timeout=limit)
        rc = p.returncode
        of.seek(0)
        out = of.read()
    except subprocess.TimeoutExpired:
        import signal
        try:
            os.killpg(p.pid, signal.SIGKILL)
        except OSError:
            pass
        of.seek(0)
        out = of.read() + '\n[wall timeout]\n'
        rc = -9
    if killed:
        out += '\n[rss watchdog killed cbmc: %s]\n' % killed
    if log:
        with open(log, 'w') as f:
            f.write(' '.join(cmd) + '\n' + out)
    return {'rc': rc, 'out': out, 'wall_s': time.time() - t0, 'cmd': ' '.join(cmd)}


def collect_harness_files(work, crate):
    """--output-into-files writes <target>/.../<harness>/... ; find them."""
    found = {}
    base = os.path.join(work, 'target-kani')
    for root, dirs, files in os.walk(base):
        for f in files:
            if f.endswith('.log') or f.endswith('.txt') or f.endswith('.out'):
                found[os.path.join(root, f)] = True
    return list(found)


if __name__ == '__main__':
    # dev: kxrun.py <repo> <crate> <harness>...
    repo = sys.argv[1] if len(sys.argv) > 1 else '/repo'
    work = os.path.join(VERIF, '.work', 'kx-dev')
    print(json.dumps(prepare(repo, work), indent=1))
    if len(sys.argv) > 3:
        r = run_kani(work, sys.argv[2], sys.argv[3:], jobs=8, harness_timeout=900, log='/tmp/kxdev.log')
        print(r['rc'], r['wall_s'])
        print(json.dumps(parse_output(r['out']), indent=1))
