"""Engine VX: build one Verus file per unit from functions extracted
mechanically out of /repo, with contracts spliced in from the unit description.

A unit description (vx/units/<name>.py) defines `build(u)` and calls:

  u.raw(text)                     pure Verus text (spec fns, lemmas, module headers)
  u.item(rel, header_re, ...)     a struct / enum / type / const / impl, verbatim
  u.fn(rel, header_re, ...)       a function verified verbatim with a spliced contract
  u.stub(rel, header_re, ...)     rule D6: signature kept, body replaced, contract ASSUMED

Every change to the extracted text is one of the declared rewrite rules D1..D6
(see DESIGN.md 2.1) and is recorded per function in `u.functions`.
"""
import hashlib
import re

import rustscan as rs


# D8: `Some(&b'e' | b'E')` on an Option<&u8> -> `Some(b'e' | b'E')` (default binding modes: same match semantics)
D8_REFPAT = (re.compile(r"""Some\(&(b'(?:\\.|[^'\\])'(?: \| b'(?:\\.|[^'\\])')+)\)"""), r'Some(\1)', 'D8')
# D5: `<str getter>().len()` -> `.as_bytes().len()` (str::len has no usable Verus spec; same value)
D5_GETTER_LEN = (re.compile(r'(\.get_(?:indentation|continuation|newline)_str\(\))\.len\(\)'), r'\1.as_bytes().len()', 'D5')


class LostAnchor(Exception):
    """An extraction or splice anchor was not found: obligation undecided."""


def sha(s):
    return hashlib.sha256(s.encode()).hexdigest()[:16]


LOG_RX = re.compile(r'(?<![A-Za-z0-9_])(?:log::)?(?:trace|debug|info|warn|error)!\s*\(')
ATTR_RX = re.compile(r'^[ \t]*#\[(?:cold|inline(?:\([a-z]+\))?|expect\([^\]]*\)|allow\([^\]]*\)|must_use)\][ \t]*\n', re.M)


def drop_log_macros(text, edits):
    """D2: log macro invocations become `()`."""
    out = []
    pos = 0
    while True:
        m = LOG_RX.search(text, pos)
        if not m:
            out.append(text[pos:])
            break
        ls = text.rfind('\n', 0, m.start()) + 1
        if text[ls:m.start()].strip().startswith('//'):
            out.append(text[pos:m.end()])
            pos = m.end()
            continue
        close = rs.match_close(text, m.end() - 1)
        out.append(text[pos:m.start()])
        out.append('()')
        edits.append(('D2', 'log macro -> ()', text[m.start():close + 1].split('\n')[0][:60]))
        pos = close + 1
    return ''.join(out)


def drop_attrs(text, edits):
    def rep(m):
        edits.append(('D1', 'attribute dropped', m.group(0).strip()))
        return ''
    return ATTR_RX.sub(rep, text)


def name_return(header, ret):
    """`fn f(..) -> T` => `fn f(..) -> (ret: T)`; no return type: unchanged."""
    # parameter list = first '(' after 'fn name' (generics may precede it)
    m = re.search(r'\bfn\s+[A-Za-z_][A-Za-z0-9_]*', header)
    if not m:
        raise LostAnchor('no fn in header: ' + header[:60])
    i = m.end()
    # skip generics
    depth = 0
    while i < len(header):
        c = header[i]
        if c == '<':
            depth += 1
        elif c == '>':
            depth -= 1
        elif c == '(' and depth == 0:
            break
        i += 1
    close = rs.match_close(header, i)
    rest = header[close + 1:]
    m2 = re.match(r'\s*->\s*', rest)
    if not m2:
        return header, False
    ty = rest[m2.end():].rstrip()
    trailing = rest[m2.end() + len(ty):]
    return header[:close + 1] + ' -> (' + ret + ': ' + ty + ')' + trailing, True


def find_loops(body):
    """Offsets (relative to body) of loop keywords outside literals, in order."""
    res = []
    i = 0
    n = len(body)
    while i < n:
        j = rs._skip_trivia_and_literals(body, i)
        if j is not None:
            i = j
            continue
        m = re.compile(r'(?<![A-Za-z0-9_])(while|loop|for)(?![A-Za-z0-9_])').match(body, i)
        if m:
            # `for<'a>` in types does not occur in bodies we extract
            res.append((i, m.group(1)))
            i = m.end()
            continue
        i += 1
    return res


class SynthItem:
    def __init__(self, header, body, line, note):
        self.header = header
        self.body = body
        self.text = header + body
        self._line = line
        self.src = header + body
        self.header_start = 0
        self.note = note

    def line(self):
        return self._line


class Fn:
    def __init__(self, unit, qual, rel, line, role):
        self.unit = unit
        self.qual = qual            # display name
        self.rel = rel
        self.line = line
        self.role = role            # 'verified' | 'assumed' | 'item' | 'spec'
        self.edits = []
        self.sha_repo = None
        self.sha_emitted = None
        self.obligations = []       # ids
        self.kx = None              # for assumed: name of KX harness group discharging it
        self.contract_text = ''


class Unit:
    def __init__(self, name, repo):
        self.name = name
        self.repo = repo
        self.parts = []
        self.functions = []
        self._src = {}
        self.assumptions = []       # free text
        self.expected_verified = None
        self.canary = False

    # ---------------------------------------------------------------- sources
    def src(self, rel):
        if rel not in self._src:
            with open(self.repo + '/' + rel) as f:
                self._src[rel] = f.read()
        return self._src[rel]

    def locate(self, rel, header_re, within_re=None, const=False, nth=0):
        src = self.src(rel)
        within = None
        try:
            if within_re:
                outer = rs.find_item(src, within_re)
                within = (outer.body_open, outer.end)
            if const:
                return rs.const_item(src, header_re, within)
            return rs.find_item(src, header_re, nth, within)
        except rs.ScanError as e:
            raise LostAnchor('%s: %s' % (rel, e))

    # ---------------------------------------------------------------- emitters
    def raw(self, text):
        self.parts.append(text if text.endswith('\n') else text + '\n')

    def assume(self, text):
        self.assumptions.append(text)

    def _apply_edits(self, text, edits, rec):
        for e in edits or []:
            old, new, rule = e[0], e[1], e[2]
            if isinstance(old, re.Pattern):
                # a rewrite *rule* (applies wherever the construct occurs in the function, at least once)
                text, n = old.subn(new, text)
                if n < 1:
                    raise LostAnchor('rewrite rule %s (%s) matches nothing' % (rule, old.pattern[:50]))
                rec.append((rule, 'rewrite', '%s => %s (%d site(s))' % (old.pattern[:50], new[:50], n)))
                continue
            count = e[3] if len(e) > 3 else 1
            if text.count(old) != count:
                raise LostAnchor('edit anchor %r occurs %d times, expected %d' % (old[:50], text.count(old), count))
            text = text.replace(old, new)
            rec.append((rule, 'rewrite', '%s => %s' % (old.strip()[:50], new.strip()[:50])))
        return text

    def item(self, rel, header_re, within_re=None, const=False, edits=None, prefix='', pub_fields=False, nth=0, name=None):
        it = self.locate(rel, header_re, within_re, const, nth)
        f = Fn(self.name, name or header_re, rel, it.line(), 'item')
        text = it.text
        f.sha_repo = sha(text)
        text = drop_attrs(text, f.edits)
        text = drop_log_macros(text, f.edits)
        text = self._apply_edits(text, edits, f.edits)
        if pub_fields:
            # make private fields visible to spec code in the same file
            def pubify(m):
                return m.group(1) + 'pub ' + m.group(2)
            text2 = re.sub(r'(?m)^(\s+)((?!pub\b)[a-z_][a-z0-9_]*\s*:)', pubify, text)
            if text2 != text:
                f.edits.append(('D1', 'fields made pub for spec access (no effect on executable code)', ''))
            text = text2
        f.sha_emitted = sha(text)
        self.functions.append(f)
        self.parts.append(prefix + text + '\n')
        return f

    def _clauses(self, fid, kind, clauses, indent):
        """Render `requires a, b,` with obligation markers around each clause."""
        if not clauses:
            return '', []
        ids = []
        lines = [indent + kind]
        for k, c in enumerate(clauses, 1):
            oid = '%s/%s#%d' % (fid, kind, k)
            if kind in ('ensures', 'invariant', 'invariant_except_break'):
                ids.append(oid)
                lines.append('%s    /*@OB %s*/ %s /*@END*/,' % (indent, oid, c))
            else:
                lines.append('%s    /*@CL %s*/ %s /*@END*/,' % (indent, oid, c))
        return '\n'.join(lines) + '\n', ids

    def fn(self, rel, header_re, name=None, within_re=None, requires=None, ensures=None,
           decreases=None, loops=None, hints=None, edits=None, ret='r', nth=0,
           prefix='', opens_with=None, canary=True, no_unwind=False, synth=None, rebind_mut=None):
        if synth is not None:
            # D3: text produced by expanding a macro_rules! body found in the source
            it = SynthItem(*synth)
        else:
            it = self.locate(rel, header_re, within_re, nth=nth)
        qual = name or re.sub(r'[\\^()<]', '', header_re).replace('fn ', '').strip()
        fid = '%s/%s' % (self.name, qual)
        f = Fn(self.name, qual, rel, it.line(), 'verified')
        f.sha_repo = sha(it.text)
        if synth is not None:
            f.edits.append(('D3', it.note, ''))
        header = it.header
        body = it.body
        header = drop_attrs(header, f.edits)
        body = drop_log_macros(body, f.edits)
        body = drop_attrs(body, f.edits)
        # explicit rewrites on header+body
        whole = self._apply_edits(header + '\x00' + body, edits, f.edits)
        header, body = whole.split('\x00')
        header, named = name_return(header.rstrip(), ret)
        if named:
            f.edits.append(('splice', 'return value named `%s`' % ret, ''))
        indent = re.match(r'[ \t]*', it.src[it.src.rfind('\n', 0, it.header_start) + 1:it.header_start]).group(0)
        contract = ''
        for kind, cl in (('requires', requires), ('ensures', ensures)):
            t, ids = self._clauses(fid, kind, cl, indent + '    ')
            contract += t
            f.obligations += ids
        if decreases:
            contract += '%s    decreases %s\n' % (indent, decreases)
        if no_unwind:
            contract += '%s    no_unwind\n' % indent
        f.contract_text = contract
        # loops: splice invariants before the loop body's `{`
        if loops:
            found = find_loops(body)
            if len(found) < len(loops):
                raise LostAnchor('%s: %d loops found, %d expected' % (qual, len(found), len(loops)))
            inserts = []
            for k, spec in enumerate(loops):
                if spec is None:
                    continue
                off, kw = found[spec.get('ordinal', k)]
                if 'keyword' in spec and spec['keyword'] != kw:
                    raise LostAnchor('%s: loop %d is `%s`, expected `%s`' % (qual, k, kw, spec['keyword']))
                bo, ch = rs.find_body_open(body, off + len(kw))
                if ch != '{':
                    raise LostAnchor('%s: loop %d has no body' % (qual, k))
                lfid = '%s/loop%d' % (fid, k)
                if spec.get('iter_name'):
                    # `for x in EXPR` => `for x in NAME: EXPR` (names Verus' ghost iterator; no executable effect)
                    m_in = re.compile(r'\bin\s+').search(body, off, bo)
                    if kw != 'for' or not m_in:
                        raise LostAnchor('%s: loop %d is not a for-in loop' % (qual, k))
                    inserts.append((m_in.end(), spec['iter_name'] + ': '))
                    f.edits.append(('splice', 'ghost iterator named `%s`' % spec['iter_name'], ''))
                t = '\n'
                if spec.get('invariant_except_break'):
                    tt, ids = self._clauses(lfid, 'invariant_except_break', spec['invariant_except_break'], indent + '        ')
                    t += tt
                    f.obligations += ids
                tt, ids = self._clauses(lfid, 'invariant', spec.get('invariant'), indent + '        ')
                t += tt
                f.obligations += ids
                if spec.get('ensures'):
                    tt, ids2 = self._clauses(lfid, 'ensures', spec['ensures'], indent + '        ')
                    t += tt
                    f.obligations += ids2
                if spec.get('decreases'):
                    t += '%s        decreases %s\n' % (indent, spec['decreases'])
                t += indent + '    '
                inserts.append((bo, t))
            for bo, t in sorted(inserts, reverse=True):
                body = body[:bo] + t + body[bo:]
        # hints: ghost code before/after the n-th occurrence of a literal anchor
        for h in hints or []:
            anchor, text = h['at'], h['text']
            nth_h = h.get('nth', 0)
            pos = -1
            start = 0
            for _ in range(nth_h + 1):
                pos = body.find(anchor, start)
                if pos < 0:
                    raise LostAnchor('%s: hint anchor %r (nth=%d) not found' % (qual, anchor[:40], nth_h))
                start = pos + 1
            if h.get('where', 'before') == 'before':
                ins = body.rfind('\n', 0, pos) + 1
            else:
                ins = body.find('\n', pos + len(anchor)) + 1
            body = body[:ins] + '/*@HINT*/ ' + text.rstrip('\n') + '\n' + body[ins:]
            f.edits.append(('splice', 'ghost hint %s %r' % (h.get('where', 'before'), anchor.strip()[:40]), ''))
        if opens_with:
            body = '{\n' + opens_with.rstrip('\n') + '\n' + body[1:]
            f.edits.append(('splice', 'ghost prologue', ''))
        if rebind_mut:
            # D9: `mut p: T` becomes `p0: T` + leading `let mut p = p0;` so that loop invariants can name the entry value
            pn, p0 = rebind_mut
            pat = re.compile(r'\bmut\s+' + re.escape(pn) + r'\s*:')
            if len(pat.findall(header)) != 1:
                raise LostAnchor('%s: parameter `mut %s` not found' % (qual, pn))
            header = pat.sub(p0 + ':', header)
            body = '{\n    let mut %s = %s;\n' % (pn, p0) + body[1:]
            f.edits.append(('D9', '`mut %s` parameter re-bound from `%s` by a leading let (same semantics)' % (pn, p0), ''))
        if self.canary and canary:
            body = '{\n/*@CANARY %s*/ assert(false);\n' % fid + body[1:]
        f.obligations.append(fid + '/body')
        text = '/*@FN %s*/\n' % fid + prefix + indent + header + '\n' + contract + indent + body + '\n/*@ENDFN*/\n'
        f.sha_emitted = sha(text)
        self.functions.append(f)
        self.parts.append(text)
        return f

    def stub(self, rel, header_re, name=None, within_re=None, requires=None, ensures=None,
             ret='r', edits=None, kx=None, nth=0, prefix='', no_unwind=False):
        """D6: function outside the Verus subset: signature + ASSUMED contract."""
        it = self.locate(rel, header_re, within_re, nth=nth)
        qual = name or re.sub(r'[\\^()<]', '', header_re).replace('fn ', '').strip()
        fid = '%s/%s' % (self.name, qual)
        f = Fn(self.name, qual, rel, it.line(), 'assumed')
        f.sha_repo = sha(it.text)
        f.kx = kx
        header = drop_attrs(it.header, f.edits)
        header = self._apply_edits(header, edits, f.edits)
        header, named = name_return(header.rstrip(), ret)
        indent = ''
        contract = ''
        for kind, cl in (('requires', requires), ('ensures', ensures)):
            if cl:
                contract += '    ' + kind + '\n' + ''.join('        %s,\n' % c for c in cl)
        if no_unwind:
            contract += '    no_unwind\n'
        f.contract_text = contract
        f.edits.append(('D6', 'body replaced by unimplemented!(); contract assumed' + (' (discharged by KX %s)' % kx if kx else ''), ''))
        text = prefix + '#[verifier::external_body]\n' + header + '\n' + contract + '{ unimplemented!() }\n'
        f.sha_emitted = sha(text)
        self.functions.append(f)
        self.parts.append(text)
        return f

    # ---------------------------------------------------------------- output
    def render(self):
        return ''.join(self.parts)

    def obligations(self):
        res = []
        for f in self.functions:
            res += f.obligations
        return res


def span_table(text):
    """From the rendered file: list of (start, end, kind, id) for OB/CL clause
    markers, FN ranges, CANARY statements and HINT lines."""
    tab = []
    for m in re.finditer(r'/\*@(OB|CL) ([^*]+)\*/', text):
        e = text.find('/*@END*/', m.end())
        tab.append((m.start(), e, m.group(1), m.group(2)))
    for m in re.finditer(r'/\*@FN ([^*]+)\*/', text):
        e = text.find('/*@ENDFN*/', m.end())
        tab.append((m.start(), e, 'FN', m.group(1)))
    for m in re.finditer(r'/\*@CANARY ([^*]+)\*/', text):
        e = text.find('\n', m.end())
        tab.append((m.start(), e, 'CANARY', m.group(1)))
    for m in re.finditer(r'/\*@HINT\*/', text):
        e = text.find('\n', m.end())
        tab.append((m.start(), e, 'HINT', ''))
    return tab


def classify(tab, byte_start):
    """Innermost marker range containing byte_start."""
    best = None
    for s, e, k, i in tab:
        if s <= byte_start <= e:
            if best is None or (e - s) < (best[1] - best[0]):
                best = (s, e, k, i)
    return best
