"""Property-level driver: units -> obligations -> verdict -> evidence."""
import concurrent.futures as cf
import fcntl
import json
import os
import re
import shutil
import subprocess
import sys
import time

VERIF = os.path.dirname(os.path.dirname(os.path.abspath(__file__)))
sys.path.insert(0, os.path.join(VERIF, 'lib'))
sys.path.insert(0, os.path.join(VERIF, 'vx', 'units'))

import kxrun      # noqa: E402
import nxrun      # noqa: E402
import registry   # noqa: E402
import vxrun      # noqa: E402

WORK = os.path.join(VERIF, '.work')
TOOLS = 'verus 0.2026.09.13 (Z3), kani 0.68.0 (CBMC 6.11, CaDiCaL)'


def log(*a):
    print(*a, file=sys.stderr, flush=True)


# ------------------------------------------------------------------ KX units
def load_kx_unit(name):
    with open(os.path.join(VERIF, 'kx', 'units', name + '.json')) as f:
        return json.load(f)


def kx_select(unit, tier):
    hs = []
    for h in unit['harnesses']:
        if h.get('disabled'):
            continue
        if tier == 'thorough' or h.get('tier', 'quick') == 'quick':
            hs.append(h)
    return hs


def cache_path(th, harness):
    return os.path.join(WORK, 'cache', th, 'kx', harness.replace('::', '__') + '.json')


def run_kx(units, tier, repo, use_cache=True, only=None):
    """units: list of unit names.  Returns {unit: {harness_name: result}} ,
    plus the injection report."""
    th = kxrun.tree_hash(repo)
    os.makedirs(os.path.join(WORK, 'cache', th, 'kx'), exist_ok=True)
    lockf = open(os.path.join(WORK, 'cache', th, 'kx.lock'), 'w')
    fcntl.flock(lockf, fcntl.LOCK_EX)
    try:
        descs = {u: load_kx_unit(u) for u in units}
        need = {}   # crate -> [(unit, h)]
        results = {u: {} for u in units}
        for u, d in descs.items():
            for h in kx_select(d, tier):
                if only is not None and h['name'] not in only:
                    continue
                cp = cache_path(th, h['name'])
                if use_cache and os.path.exists(cp):
                    with open(cp) as f:
                        r = json.load(f)
                    r['reused'] = True
                    results[u][h['name']] = r
                else:
                    need.setdefault(d['crate'], []).append((u, h))
        report = {'tree_hash': th, 'injection': None}
        if need:
            work = os.path.join(WORK, 'kx-%s-%d' % (th, os.getpid()))
            try:
                try:
                    report['injection'] = kxrun.prepare(repo, work)
                except (RuntimeError, OSError, subprocess.CalledProcessError) as e:
                    for crate, lst in need.items():
                        for u, h in lst:
                            results[u][h['name']] = {'status': 'UNDECIDED', 'reason': 'injection: %s' % e, 'failed_checks': [],
                                                     'checks': 0, 'covers': None, 'time_s': 0}
                    return results, report
                for crate, lst in need.items():
                    names = [h['name'] for _, h in lst]
                    tmax = max(h.get('timeout', 600) for _, h in lst)
                    biggest = max(h.get('rss_gb', 4) for _, h in lst)
                    jobs = max(1, min(12, len(names), int(48 / biggest)))
                    log('[kx] %s: %d harness(es), timeout %ds, -j %d' % (crate, len(names), tmax, jobs))
                    r = kxrun.run_kani(work, crate, names, jobs=jobs, harness_timeout=tmax,
                                       rss_limit_gb=max(h.get('rss_gb', 12) for _, h in lst),
                                       log=os.path.join(WORK, 'cache', th, 'kani-%s-%d.log' % (crate, int(time.time()))))
                    parsed = kxrun.parse_output(r['out'])
                    build_failed = 'error: could not compile' in r['out'] or 'error[E' in r['out']
                    for u, h in lst:
                        full = [k for k in parsed if k.endswith('::' + h['name']) or k == h['name']]
                        if full:
                            res = parsed[full[0]]
                        elif build_failed:
                            errs = re.findall(r'^error.*$', r['out'], re.M)[:5]
                            res = {'status': 'UNDECIDED', 'reason': 'work copy does not compile under cfg(kani): ' + ' | '.join(errs),
                                   'failed_checks': [], 'checks': 0, 'covers': None, 'time_s': 0}
                        else:
                            res = {'status': 'UNDECIDED', 'reason': 'harness not found in Kani output (rc=%s)' % r['rc'],
                                   'failed_checks': [], 'checks': 0, 'covers': None, 'time_s': 0}
                        res['cmd'] = r['cmd']
                        res['reused'] = False
                        results[u][h['name']] = res
                        if res['status'] in ('SUCCESSFUL', 'FAILED'):
                            with open(cache_path(th, h['name']), 'w') as f:
                                json.dump(res, f)
            finally:
                shutil.rmtree(work, ignore_errors=True)
        return results, report
    finally:
        fcntl.flock(lockf, fcntl.LOCK_UN)
        lockf.close()


def kx_obligations(unit_name, desc, tier, hres):
    """-> (obligations[list of dict], failed{oid: [detail]}, undecided[list])"""
    obs, failed, undecided = [], {}, []
    for h in kx_select(desc, tier):
        short = h['name'].split('::')[-1]
        r = hres.get(h['name'])
        ids = ['%s/%s/%s' % (unit_name, short, o) for o in h.get('obligations', [])] + ['%s/%s/safety' % (unit_name, short)]
        for oid in ids:
            obs.append({'id': oid, 'engine': 'KX', 'kind': h.get('kind', 'bounded'), 'bound': h.get('bound', ''), 'harness': h['name']})
        if r is None:
            undecided.append('%s: no result' % h['name'])
            continue
        st = r['status']
        if st == 'SUCCESSFUL':
            cov = r.get('covers')
            # covers_unsat_ok: covers of a shared harness body that cannot be reached from this instance by construction (reason in the unit file)
            if cov and cov[0] < cov[1] - h.get('covers_unsat_ok', 0):
                undecided.append('%s: vacuity guard: only %d of %d cover properties satisfied' % (h['name'], cov[0], cov[1]))
            if h.get('covers') and (not cov or cov[1] < h['covers']):
                undecided.append('%s: expected %d cover properties, Kani reported %s' % (h['name'], h['covers'], cov))
            continue
        if st == 'FAILED':
            real = [fc for fc in r['failed_checks'] if 'unwinding assertion' not in fc['desc']]
            if r.get('unwind_failed') and not real:
                undecided.append('%s: unwinding assertion failed (bound too small for this code)' % h['name'])
                continue
            if not real:
                undecided.append('%s: FAILED without a failed check in the output' % h['name'])
                continue
            for fc in real:
                m = re.match(r'OB (\S+?):', fc['desc'])
                if m:
                    oid = '%s/%s/%s' % (unit_name, short, m.group(1).split('/', 1)[-1] if m.group(1).startswith(unit_name + '/') else m.group(1))
                elif fc['desc'].lstrip().startswith('|') and h.get('obligations'):
                    # the ensures closure of a Kani function contract (proof_for_contract harness)
                    oid = '%s/%s/%s' % (unit_name, short, h['obligations'][0])
                else:
                    oid = '%s/%s/safety' % (unit_name, short)
                failed.setdefault(oid, []).append('%s @ %s' % (fc['desc'], fc['loc']))
            continue
        undecided.append('%s: %s %s' % (h['name'], st, r.get('reason', '')))
    return obs, failed, undecided


# ------------------------------------------------------------------ NX units (bounded stand-ins, native exhaustive)
def load_nx_unit(name):
    with open(os.path.join(VERIF, 'nx', 'units', name + '.json')) as f:
        return json.load(f)


def run_nx(units, tier, repo, use_cache=True):
    """-> {crate: {'tests': {...}, 'cmd':..., 'wall_s':...}}"""
    th = kxrun.tree_hash(repo)
    os.makedirs(os.path.join(WORK, 'cache', th), exist_ok=True)
    lockf = open(os.path.join(WORK, 'cache', th, 'nx.lock'), 'w')
    fcntl.flock(lockf, fcntl.LOCK_EX)
    out = {}
    try:
        crates = sorted(set(load_nx_unit(u)['crate'] for u in units))
        for crate in crates:
            cp = os.path.join(WORK, 'cache', th, 'nx-%s-%s.json' % (crate, tier))
            if use_cache and os.path.exists(cp):
                with open(cp) as f:
                    out[crate] = json.load(f)
                out[crate]['reused'] = True
                continue
            work = os.path.join(WORK, 'nx-%s-%d' % (th, os.getpid()))
            try:
                try:
                    kxrun.prepare(repo, work, shim=False)
                    shutil.copy(os.path.join(repo, 'Cargo.lock'), os.path.join(work, 'Cargo.lock'))
                except (RuntimeError, OSError, subprocess.CalledProcessError) as e:
                    out[crate] = {'tests': {}, 'error': 'injection: %s' % e, 'wall_s': 0, 'cmd': ''}
                    continue
                log('[nx] %s: native exhaustive stand-ins' % crate)
                r = nxrun.run_tests(work, crate, [], log=os.path.join(WORK, 'cache', th, 'nx-%s-%s.log' % (crate, tier)),
                                    thorough=(tier == 'thorough'), timeout=5400 if tier == 'thorough' else 1800)
                res = {'tests': r['tests'], 'wall_s': r['wall_s'], 'cmd': r['cmd'], 'reused': False}
                if r['build_failed'] or r['timeout']:
                    errs = re.findall(r'^error.*$', r['out'], re.M)[:5]
                    res['error'] = 'timeout' if r['timeout'] else 'work copy does not compile under cfg(verif_nx): ' + ' | '.join(errs)
                else:
                    with open(cp, 'w') as f:
                        json.dump(res, f)
                out[crate] = res
            finally:
                shutil.rmtree(work, ignore_errors=True)
        return out
    finally:
        fcntl.flock(lockf, fcntl.LOCK_UN)
        lockf.close()


def nx_obligations(unit_name, desc, tier, cres, prop=None):
    """Obligations of one NX unit as far as they express `prop` (unit json: ob_props = {obligation: [properties]};
    an unmapped obligation is a lemma of every property that lists the unit).  A stand-in test stops at its first failing
    assertion: when that assertion belongs to another property, this property's clauses in the same test were not
    evaluated to the end - that is reported as undecided, never as a violation of this property."""
    obs, failed, undecided = [], {}, []
    ob_props = desc.get('ob_props', {})

    def mine(o):
        return prop is None or o not in ob_props or prop in ob_props[o]
    for t in desc['tests']:
        if tier != 'thorough' and t.get('tier', 'quick') != 'quick':
            continue
        short = t['name'].split('::')[-1]
        own = [o for o in t['obligations'] if mine(o)]
        if not own:
            continue
        ids = ['%s/%s/%s' % (unit_name, short, o) for o in own]
        for oid in ids:
            obs.append({'id': oid, 'engine': 'NX', 'kind': 'bounded', 'bound': t.get('bound', ''), 'harness': t['name']})
        if cres.get('error'):
            undecided.append('%s: %s' % (t['name'], cres['error']))
            continue
        hit = [k for k in cres.get('tests', {}) if k.endswith('::' + t['name']) or k == t['name']]
        if not hit:
            undecided.append('%s: test not found in the cargo test output' % t['name'])
            continue
        r = cres['tests'][hit[0]]
        if r['status'] == 'ok':
            continue
        msg = r.get('message', '')
        m = re.search(r'OB (\S+?):', msg)
        ob = m.group(1).split('/', 1)[-1] if m else t['obligations'][0]
        if not mine(ob) and '\n failing cases (' in msg:
            # a collect-all test fails only in its final assertion: every call it makes has returned, this property's clauses
            # in it (returns / terminates) were evaluated to the end
            continue
        if not mine(ob):
            undecided.append('%s: the stand-in stopped at obligation `%s`, which belongs to %s; the clauses of %s in this test were not evaluated to the end'
                             % (t['name'], ob, '/'.join(ob_props.get(ob, ['another property'])), prop))
            continue
        lines = [l for l in msg.split('\n') if l.strip() and not l.lstrip().startswith(('stack backtrace', 'at ', 'note:')) and not re.match(r'\s*\d+:', l)]
        cases = [l for l in lines if l.startswith('case=')]
        failed.setdefault('%s/%s/%s' % (unit_name, short, ob), []).append(' | '.join(lines[:8])[:1500] if not cases else '\n'.join(lines)[:400000])
    return obs, failed, undecided


# ------------------------------------------------------------------ locks / known findings
def load_lock(unit):
    p = os.path.join(VERIF, 'locks', unit + '.json')
    if os.path.exists(p):
        with open(p) as f:
            return json.load(f)
    return None


def load_known():
    p = os.path.join(VERIF, 'known_findings.json')
    if os.path.exists(p):
        with open(p) as f:
            return json.load(f)
    return {'findings': [], 'fixed': []}


# ------------------------------------------------------------------ main
def main(argv):
    import argparse
    ap = argparse.ArgumentParser()
    ap.add_argument('prop')
    ap.add_argument('--tier', default=os.environ.get('VERIF_TIER', 'quick'))
    ap.add_argument('--replay')
    ap.add_argument('--no-cache', action='store_true')
    ap.add_argument('--relock', action='store_true', help='write locks/<unit>.json from this run (reference tree only)')
    ap.add_argument('--repo', default=os.environ.get('VERIF_REPO', '/repo'))
    a = ap.parse_args(argv)
    if a.replay:
        import replay
        return replay.run_replay(a.replay)
    if a.tier not in ('quick', 'thorough'):
        a.tier = 'quick'
    seed = int(os.environ.get('VERIF_SEED', '0') or 0)
    P = registry.PROPS[a.prop]
    t0 = time.time()
    os.makedirs(WORK, exist_ok=True)

    vx_units = list(P.get('vx', {}))
    kx_units = list(P.get('kx', {}))
    nx_units = list(P.get('nx', {}))
    vxdir = os.path.join(WORK, 'vx-%d' % os.getpid())
    unit_results = {}
    with cf.ThreadPoolExecutor(max_workers=6) as ex:
        futs = {ex.submit(vxrun.run_unit, u, a.repo, vxdir, True): u for u in vx_units}
        kx_res, kx_report = ({}, {})
        if kx_units:
            kx_res, kx_report = run_kx(kx_units, a.tier, a.repo, use_cache=not a.no_cache and not os.environ.get('VERIF_NO_CACHE'))
        nx_res = run_nx(nx_units, a.tier, a.repo, use_cache=not a.no_cache and not os.environ.get('VERIF_NO_CACHE')) if nx_units else {}
        for f in futs:
            unit_results[futs[f]] = f.result()

    all_obs = []          # dicts
    failed = {}
    undecided = []
    functions = []
    assumptions = []
    smt_ms = 0
    evaluations = 0
    for u in vx_units:
        r = unit_results[u]
        for oid in r['obligations']:
            all_obs.append({'id': oid, 'engine': 'VX', 'kind': 'proof', 'bound': 'none (all inputs)'})
        failed.update(r['failed'])
        undecided += ['%s: %s' % (u, x) for x in r['undecided']]
        functions += [dict(f, unit=u) for f in r['functions']]
        assumptions += ['%s: %s' % (u, x) for x in r.get('assumptions', [])]
        smt_ms += r.get('smt_ms', 0)
        evaluations += r.get('verified_fns', 0)
    # A failing proof hint (ghost assert / lemma call spliced into a body) is not itself an obligation of the
    # property: the bounded Kani harness of the same function decides whether the code or only the proof broke.
    hint_only = {}
    for u in vx_units:
        for fid, det in unit_results[u].get('hint_failed', {}).items():
            if not any(k.startswith(fid + '/') for k in unit_results[u]['failed']):
                hint_only[fid] = det
    # A unit that Verus could not decide at all (a construct outside its subset appeared in one of its functions, a lost
    # anchor): the bounded Kani harnesses paired with the unit's functions still decide whether the code is broken.
    for u in vx_units:
        if unit_results[u]['undecided'] and not unit_results[u]['failed']:
            for fid in sorted(k for k in registry.VX_KX_PAIRS if k.startswith(u + '/')):
                hint_only.setdefault(fid, ['Verus left unit %s undecided: %s' % (u, str(unit_results[u]['undecided'][-1])[:200])])
    for fid, det in sorted(hint_only.items()):
        pairs = registry.VX_KX_PAIRS.get(fid, [])
        if not pairs:
            undecided.append('%s: %s (no bounded harness paired with this function)' % (fid, det[0]))
            continue
        pu = sorted(set(pu for pu, _ in pairs))
        pres, _ = run_kx(pu, 'thorough', a.repo, only=set(h for _, h in pairs))
        any_failed = False
        for pu_, hname in pairs:
            desc = load_kx_unit(pu_)
            obs, fl, und = kx_obligations(pu_, {'crate': desc['crate'], 'harnesses': [h for h in desc['harnesses'] if h['name'] == hname]}, 'thorough', pres.get(pu_, {}))
            for k, v in fl.items():
                failed.setdefault(k, []).extend(v + ['(run because the Verus proof of %s broke: %s)' % (fid, det[0][:160])])
                any_failed = True
            kx_res.setdefault(pu_, {}).update(pres.get(pu_, {}))
        if not any_failed:
            undecided.append('%s: %s; the paired bounded harness(es) %s pass, so no violation is reported' % (fid, det[0], ', '.join(h for _, h in pairs)))
    kx_time = 0.0
    kx_checks = 0
    reused = 0
    for u in kx_units:
        desc = load_kx_unit(u)
        obs, fl, und = kx_obligations(u, desc, a.tier, kx_res.get(u, {}))
        all_obs += obs
        for k, v in fl.items():
            failed.setdefault(k, []).extend(v)
        undecided += und
        for h in kx_select(desc, a.tier):
            r = kx_res.get(u, {}).get(h['name'], {})
            kx_time += r.get('time_s') or 0
            kx_checks += r.get('checks') or 0
            reused += 1 if r.get('reused') else 0
        assumptions += ['%s: %s' % (u, x) for x in desc.get('assumptions', [])]
        for fn in desc.get('functions', []):
            functions.append({'name': fn, 'unit': u, 'role': 'under KX contract harness'})
    evaluations += kx_checks
    nx_time = 0.0
    for u in nx_units:
        desc = load_nx_unit(u)
        cres = nx_res.get(desc['crate'], {})
        obs, fl, und = nx_obligations(u, desc, a.tier, cres, a.prop)
        all_obs += obs
        for k, v in fl.items():
            failed.setdefault(k, []).extend(v)
        undecided += und
        nx_time += cres.get('wall_s', 0) or 0
        assumptions += ['%s: %s' % (u, x) for x in desc.get('assumptions', [])]
        for fn in desc.get('functions', []):
            functions.append({'name': fn, 'unit': u, 'role': 'bounded stand-in (native exhaustive execution of the contract)'})
        for t in desc['tests']:
            tr = next((v for k, v in cres.get('tests', {}).items() if k.endswith('::' + t['name'])), {})
            m = re.search(r'NX \S+: (\d+) cases', tr.get('message', '') or '')
            if m:
                evaluations += int(m.group(1))
        evaluations += len(obs)

    # ---- obligation lock: an obligation that was generated on the reference tree must still be generated
    lock_path = os.path.join(VERIF, 'locks', '%s.%s.json' % (a.prop, a.tier))
    cur_ids = sorted(set(o['id'] for o in all_obs))
    if a.relock:
        # obligations that fail only on inputs recorded in known_findings.json are still generated obligations of the reference tree
        _kf = set(f['obligation'] for f in load_known()['findings'] if f['property'] == a.prop)
        if not [o for o in failed if o not in _kf] and not undecided:
            os.makedirs(os.path.join(VERIF, 'locks'), exist_ok=True)
            with open(lock_path, 'w') as f:
                json.dump({'property': a.prop, 'tier': a.tier, 'obligations': cur_ids}, f, indent=1)
    elif os.path.exists(lock_path):
        with open(lock_path) as f:
            locked = json.load(f)['obligations']
        lost = sorted(set(locked) - set(cur_ids))
        if lost and not undecided:
            undecided.append('obligations listed in %s were not generated on this run (%d, e.g. %s)' % (os.path.relpath(lock_path, VERIF), len(lost), ', '.join(lost[:4])))
    # ---- verdict
    known = load_known()
    violations = []
    known_hits = []
    for oid, details in sorted(failed.items()):
        k = [f for f in known['findings'] if f['property'] == a.prop and f['obligation'] == oid]
        if k and k[0].get('inputs') is not None:
            # a finding recorded for specific inputs covers exactly those: any other failing input of the same obligation is a violation
            got = set(re.findall(r'input=("(?:[^"\\]|\\.)*")', '\n'.join(details)))
            extra = sorted(got - set(k[0]['inputs']))
            if got and not extra:
                known_hits.append((oid, k[0]))
            else:
                violations.append((oid, details + (['inputs not covered by the recorded finding: ' + ' ; '.join(extra[:5])] if extra else ['no failing input could be read from the output'])))
        elif k:
            known_hits.append((oid, k[0]))
        else:
            violations.append((oid, details))
    shutil.rmtree(vxdir, ignore_errors=True) if not (violations or undecided) else None

    discharged = [o for o in all_obs if o['id'] not in failed]
    n_proof = len([o for o in discharged if o['kind'] in ('proof', 'complete')])
    n_bounded = len([o for o in discharged if o['kind'] == 'bounded'])
    level = P['level']
    n_all_proof = len([o for o in all_obs if o['kind'] in ('proof', 'complete')])
    cov = {
        # for a proof-level claim only unbounded / complete obligations are counted here; bounded stand-ins are listed separately
        'obligations': n_all_proof if level == 'proof' else len(all_obs),
        'discharged': (n_proof if level == 'proof' else len(discharged)) if not undecided else 0,
        'bounded_standin_obligations': len([o for o in all_obs if o['kind'] == 'bounded']),
        'discharged_unbounded_or_complete': n_proof,
        'discharged_bounded_standins': n_bounded,
        'checker_cmd': 'verus <unit>.rs --output-json --time --multiple-errors 200 --triggers-mode silent --error-format=json ; '
                       'cargo kani -p <crate> -Z function-contracts -Z stubbing --harness <h> --output-format terse (see units[].cmd)',
        'trusted_base': sorted(set(registry.TRUSTED_BASE + assumptions)),
        'evaluations': max(1, evaluations),
        'distinct_nontrivial': len(set(o['id'] for o in discharged)),
        'rule': 'one case = one contract obligation (spliced ensures / invariant clause, per-function body-safety obligation, '
                'or a Kani harness obligation); non-trivial = reachable: the canary assert(false) under the function\'s requires '
                'fails (VX) or every kani::cover! of the harness is satisfied (KX); distinct by obligation id. '
                'evaluations = Verus items verified + CBMC checks evaluated.',
        'samples': [o['id'] + ('  [' + o['bound'] + ']' if o.get('bound') else '') for o in all_obs[:12]],
        'explanation': P.get('explanation', ''),
        'units': {},
        'functions_under_contract': functions,
        'not_decided': P.get('not_decided', []),
        'solver_time_s': {'verus_smt': round(smt_ms / 1000.0, 2), 'cbmc': round(kx_time, 1)},
        'kx_results_reused_from_cache_same_tree': reused,
        'tools': TOOLS,
        'tree_hash': kxrun.tree_hash(a.repo),
        'undecided': undecided,
        'failed_obligations': {k: v for k, v in failed.items()},
    }
    for u in vx_units:
        r = unit_results[u]
        cov['units'][u] = {'engine': 'VX', 'role': P['vx'][u], 'obligations': len(r['obligations']), 'failed': len(r['failed']),
                           'functions_verified': r.get('n_under_contract'), 'canaries_fired': r.get('canaries_fired'),
                           'wall_s': round(r.get('wall_s', 0), 1), 'cmd': r.get('cmd'), 'assumption_scan': r.get('assumption_scan')}
    for u in kx_units:
        desc = load_kx_unit(u)
        cov['units'][u] = {'engine': 'KX', 'role': P['kx'][u], 'crate': desc['crate'], 'harnesses': [
            {'name': h['name'], 'kind': h.get('kind', 'bounded'), 'bound': h.get('bound', ''),
             'status': kx_res.get(u, {}).get(h['name'], {}).get('status'),
             'checks': kx_res.get(u, {}).get(h['name'], {}).get('checks'),
             'covers': kx_res.get(u, {}).get(h['name'], {}).get('covers'),
             'time_s': kx_res.get(u, {}).get(h['name'], {}).get('time_s'),
             'reused': kx_res.get(u, {}).get(h['name'], {}).get('reused')} for h in kx_select(desc, a.tier)]}
    for u in nx_units:
        desc = load_nx_unit(u)
        cres = nx_res.get(desc['crate'], {})
        cov['units'][u] = {'engine': 'NX (bounded stand-in)', 'role': P['nx'][u], 'crate': desc['crate'], 'cmd': cres.get('cmd'),
                           'wall_s': round(cres.get('wall_s', 0) or 0, 1), 'reused': cres.get('reused'),
                           'tests': [{'name': t['name'], 'bound': t.get('bound', ''),
                                      'status': next((v['status'] for k, v in cres.get('tests', {}).items() if k.endswith('::' + t['name'])), None)}
                                     for t in desc['tests']]}
    if kx_report.get('injection'):
        cov['kx_injection'] = kx_report['injection']
    cov['known_findings_hit'] = [{'obligation': oid, 'what': k['what']} for oid, k in known_hits]
    ev = {
        'property_id': a.prop, 'tier': a.tier, 'seed': seed, 'level': level, 'coverage': cov,
        'assumptions': sorted(set(registry.TRUSTED_BASE + assumptions + ['NOT DECIDED: ' + x for x in P.get('not_decided', [])])),
        'wall_s': round(time.time() - t0, 2), 'violations': len(violations),
    }
    # evidence of runs against /repo itself goes to evidence/; trial runs against a scratch copy must not overwrite it
    evdir = os.path.join(VERIF, 'evidence') if os.path.realpath(a.repo) == os.path.realpath('/repo') else os.path.join(WORK, 'evidence-scratch')
    os.makedirs(evdir, exist_ok=True)
    with open(os.path.join(evdir, a.prop + '.json'), 'w') as f:
        json.dump(ev, f, indent=1, default=str)

    for oid, k in known_hits:
        print('KNOWN-FINDING: property=%s %s: %s' % (a.prop, oid, k['what']))
    if violations:
        import replay
        for oid, details in violations:
            path, found = replay.make_replay(a.prop, oid, details, a.repo, a.tier, unit_results, kx_res)
            print('VIOLATION property=%s replay=%s%s' % (a.prop, path, '' if found else ' no-failing-input-found'))
            log('  failed obligation %s: %s' % (oid, ' ; '.join(details)[:400]))
        return 1
    if undecided:
        for x in undecided:
            print('UNDECIDED %s' % x)
        return 2
    print('OK property=%s tier=%s obligations=%d discharged=%d (unbounded/complete %d, bounded %d) wall=%.0fs' % (
        a.prop, a.tier, len(all_obs), len(discharged), n_proof, n_bounded, time.time() - t0))
    return 0
