// NX stand-in for the parts of FileFormatter that Kani could not carry (write / encode on more than one character,
// decode_file, check_formatting): the round trip  bytes -> decode_file -> write  and the files-mode write protocol,
// executed natively on the real code (in-memory reader / writer and a real temporary file).
// Contract (C16 / C17):
//   * write(w, enc, bom, text) appends exactly bom ++ encode(enc, text) and returns that number of bytes;
//   * decode_file(bom ++ encode(enc, text)) yields text, keeps the BOM, and selects enc when a BOM is present,
//     the configured encoding otherwise; writing the decoded file back reproduces the input bytes;
//   * malformed input in the selected encoding is an error;
//   * check_formatting(a, b) is Ok exactly when a == b;
//   * format_files leaves the file holding exactly write(..) of the formatted text - no stale tail when the result is
//     shorter - and leaves an undecodable file untouched; check_files never modifies a file.
#[cfg(verif_nx)]
mod verif_nx_filefmt {
    use super::*;
    use pasfmt_core::prelude::*;

    fn ff(enc: &'static Encoding) -> FileFormatter {
        let f = Formatter::builder()
            .lexer(DelphiLexer {})
            .parser(DelphiLogicalLineParser {})
            .file_formatter(TokenSpacing {})
            .file_formatter(LowercaseKeywords {})
            .reconstructor(DelphiLogicalLinesReconstructor::new(ReconstructionSettings::new(LineEnding::Lf, TabKind::Soft, 2, 2)))
            .build();
        FileFormatter::new(f, enc)
    }

    fn utf16(s: &str, le: bool) -> Vec<u8> {
        s.encode_utf16().flat_map(|u| if le { u.to_le_bytes() } else { u.to_be_bytes() }).collect()
    }

    // one character per UTF-16 shape: BMP, first and last code point of plane 1, planes 2 and 16 (surrogate pairs with high bits set)
    const ALPHA: [&str; 11] = ["a", "\u{e9}", "\u{20ac}", "\u{1F600}", "\n", ";", "\u{3000}", "\u{FEFF}", "\u{10000}", "\u{20BB7}", "\u{10FFFF}"];

    fn texts(f: &mut dyn FnMut(&str)) {
        f("");
        for a in ALPHA { f(a); for b in ALPHA { f(&format!("{a}{b}")); for c in ALPHA { f(&format!("{a}{b}{c}")); } } }
    }

    #[test]
    fn verif_nx_filefmt_roundtrip() {
        let mut n = 0u64;
        let cases: [(&'static Encoding, Option<&[u8]>); 8] = [
            (encoding_rs::UTF_16LE, None),
            (encoding_rs::UTF_16BE, None),
            (encoding_rs::UTF_8, None),
            (encoding_rs::UTF_8, Some(&[0xEF, 0xBB, 0xBF])),
            (encoding_rs::UTF_16LE, Some(&[0xFF, 0xFE])),
            (encoding_rs::UTF_16BE, Some(&[0xFE, 0xFF])),
            (encoding_rs::WINDOWS_1252, None),
            (encoding_rs::SHIFT_JIS, None),
        ];
        texts(&mut |t| {
            for (enc, bom) in cases {
                if bom.is_none() && t.starts_with('\u{FEFF}') {
                    // without a BOM a leading U+FEFF IS a byte-order mark: inherently ambiguous, outside the contract
                    continue;
                }
                // independent encoding of the text
                let expected_body: Option<Vec<u8>> = if enc == encoding_rs::UTF_16LE {
                    Some(utf16(t, true))
                } else if enc == encoding_rs::UTF_16BE {
                    Some(utf16(t, false))
                } else {
                    let (b, _, bad) = enc.encode(t);
                    if bad { None } else { Some(b.into_owned()) }
                };
                let mut w: Vec<u8> = vec![9, 9];
                let r = FileFormatter::write(&mut w, enc, bom, t);
                match (&expected_body, r) {
                    (None, Err(_)) => {
                        assert!(w.len() == 2, "OB filefmt/unencodable_writes_nothing: text that the encoding cannot represent is rejected before anything is written\n text={:?} enc={}", t, enc.name());
                    }
                    (None, Ok(_)) => panic!("OB filefmt/unencodable_is_error: text that the encoding cannot represent must be an error\n text={:?} enc={}", t, enc.name()),
                    (Some(_), Err(e)) => panic!("OB filefmt/write_ok: representable text is written\n text={:?} enc={} err={}", t, enc.name(), e),
                    (Some(body), Ok(len)) => {
                        let mut exp = vec![9u8, 9];
                        exp.extend_from_slice(bom.unwrap_or(&[]));
                        exp.extend_from_slice(body);
                        assert!(w == exp, "OB filefmt/write_bytes: the bytes written are BOM ++ encode(text), in order\n text={:?} enc={} got={:?} expected={:?}", t, enc.name(), w, exp);
                        assert!(len as usize == exp.len() - 2, "OB filefmt/write_len_is_bytes_written: the returned length is the number of bytes written\n text={:?} enc={} len={}", t, enc.name(), len);
                        // decode what was written (configured encoding = enc when there is no BOM, UTF-8 otherwise to show the BOM wins)
                        let configured = if bom.is_some() { encoding_rs::WINDOWS_1252 } else { enc };
                        let f = ff(configured);
                        let mut buf = Vec::new();
                        let d = f.decode_file(&w[2..], "x", &mut buf);
                        match d {
                            Err(e) => panic!("OB filefmt/decode_ok: well-formed input is decoded\n text={:?} enc={} err={}", t, enc.name(), e),
                            Ok(d) => {
                                assert!(d.encoding == enc, "OB filefmt/bom_decides_encoding: a BOM selects its encoding, otherwise the configured one is used\n text={:?} enc={} got={}", t, enc.name(), d.encoding.name());
                                assert!(d.bom == bom, "OB filefmt/bom_preserved: the BOM is kept for writing back\n text={:?} enc={}", t, enc.name());
                                assert!(d.contents == t, "OB filefmt/decode_inverse_of_encode: decoding the written bytes gives the text back\n text={:?} enc={} got={:?}", t, enc.name(), d.contents);
                                let mut w2: Vec<u8> = Vec::new();
                                FileFormatter::write_file(&mut w2, &d, &d.contents).unwrap();
                                assert!(w2 == w[2..], "OB filefmt/write_back_same_bytes: writing an unchanged decoded file reproduces its bytes (encoding and BOM preserved)\n text={:?} enc={}", t, enc.name());
                            }
                        }
                    }
                }
                n += 1;
            }
        });
        println!("NX filefmt_roundtrip: {} cases", n);
        assert!(n > 2_000, "enumeration ran");
    }

    #[test]
    fn verif_nx_filefmt_malformed_and_check() {
        let mut n = 0u64;
        // malformed input is rejected
        let bad: [(&'static Encoding, &[u8]); 5] = [
            (encoding_rs::UTF_8, &[b'a', 0xFF, b'b']),
            (encoding_rs::UTF_8, &[0xC3]),
            (encoding_rs::UTF_8, &[0xEF, 0xBB, 0xBF, 0xE2, 0x82]),
            (encoding_rs::WINDOWS_1252, &[0xFF, 0xFE, 0x61]),        // UTF-16LE BOM, odd length
            (encoding_rs::WINDOWS_1252, &[0xFE, 0xFF, 0xD8, 0x00]),  // UTF-16BE BOM, lone surrogate
        ];
        for (enc, bytes) in bad {
            let f = ff(enc);
            let mut buf = Vec::new();
            assert!(f.decode_file(bytes, "x", &mut buf).is_err(), "OB filefmt/malformed_is_error: input that is malformed in the selected encoding is rejected\n enc={} bytes={:?}", enc.name(), bytes);
            n += 1;
        }
        // check_formatting
        texts(&mut |a| {
            for b in ["", "a", "a\n", ";"] {
                let r = FileFormatter::check_formatting(a, b, "x");
                assert!(r.is_ok() == (a == b), "OB filefmt/check_is_equality: check mode accepts exactly unchanged text\n a={:?} b={:?}", a, b);
                n += 1;
            }
        });
        println!("NX filefmt_malformed_and_check: {} cases", n);
        assert!(n > 1_000, "enumeration ran");
    }

    // a batch: every file gets exactly the result it gets alone; failing files (undecodable, missing) neither change nor
    // disturb the others; exactly the failing files are reported - for several pool sizes, failure patterns and repetitions
    // (schedules are sampled by repetition, not enumerated)
    #[test]
    fn verif_nx_filefmt_batch() {
        let mut n = 0u64;
        let mut round = 0;
        for threads in [1usize, 2, 3, 8] {
            for pattern in 0..4usize {
                for _rep in 0..2 {
                    round += 1;
                    let dir = std::env::temp_dir().join(format!("verif_nx_ffb_{}_{}", std::process::id(), round));
                    std::fs::create_dir_all(&dir).unwrap();
                    let mut paths: Vec<String> = Vec::new();
                    let mut expect: Vec<Option<Vec<u8>>> = Vec::new();
                    let mut failing = 0usize;
                    for i in 0..36usize {
                        let path = dir.join(format!("b{:02}.pas", i));
                        let fail = match pattern { 0 => i % 2 == 0, 1 => i % 3 == 0, 2 => i < 18, _ => false };
                        if fail && i % 4 == 1 {
                            // a path that does not exist
                            paths.push(path.to_string_lossy().to_string());
                            expect.push(None);
                            failing += 1;
                            continue;
                        }
                        let body = format!("a{}   :=   {};{}", i, i, "  x;".repeat(i % 5));
                        let formatted = format!("a{} := {};{}", i, i, " x;".repeat(i % 5));
                        let (bytes, exp): (Vec<u8>, Vec<u8>) = if fail {
                            failing += 1;
                            let bad = vec![b'x', b'0' + (i % 10) as u8, 0xFF, b';', b' ', b' '];
                            (bad.clone(), bad)
                        } else if i % 7 == 3 {
                            let mut a = vec![0xFF, 0xFE]; a.extend(utf16(&body, true));
                            let mut b = vec![0xFF, 0xFE]; b.extend(utf16(&formatted, true));
                            (a, b)
                        } else {
                            (body.into_bytes(), formatted.into_bytes())
                        };
                        std::fs::write(&path, &bytes).unwrap();
                        paths.push(path.to_string_lossy().to_string());
                        expect.push(Some(exp));
                    }
                    let f = ff(encoding_rs::UTF_8);
                    let errors = std::sync::atomic::AtomicUsize::new(0);
                    let pool = rayon::ThreadPoolBuilder::new().num_threads(threads).build().unwrap();
                    pool.install(|| f.format_files(&paths, |_e| { errors.fetch_add(1, std::sync::atomic::Ordering::SeqCst); }, &[]));
                    let e = errors.load(std::sync::atomic::Ordering::SeqCst);
                    assert!(e == failing, "OB filefmt/batch_errors_per_file: exactly the failing files are reported\n threads={} pattern={} errors={} failing={}", threads, pattern, e, failing);
                    for (i, p) in paths.iter().enumerate() {
                        match &expect[i] {
                            None => assert!(!std::path::Path::new(p).exists(), "OB filefmt/batch_equals_single: a missing file is not created\n file={}", i),
                            Some(exp) => {
                                let got = std::fs::read(p).unwrap();
                                assert!(&got == exp, "OB filefmt/batch_equals_single: in a batch every file gets the result it gets alone; failing files stay untouched\n threads={} pattern={} file={} got={:?} expected={:?}", threads, pattern, i, String::from_utf8_lossy(&got), String::from_utf8_lossy(exp));
                            }
                        }
                        n += 1;
                    }
                    let _ = std::fs::remove_dir_all(&dir);
                }
            }
        }
        println!("NX filefmt_batch: {} cases", n);
        assert!(n == 36 * 32, "enumeration ran");
    }

    // files mode / check mode on real files
    #[test]
    fn verif_nx_filefmt_files_mode() {
        let dir = std::env::temp_dir().join(format!("verif_nx_ff_{}", std::process::id()));
        std::fs::create_dir_all(&dir).unwrap();
        let mut n = 0u64;
        // the last two are mostly CJK: longer in UTF-8 than in UTF-16, so a length taken from the wrong representation shows
        let inputs = ["a:=1;", "a   :=   1  ;      ", "a:=1;\n\n\n\n\n\n", "a :=\u{e9};", "", "BEGIN a; END", "begin a; end",
                      "a  :=  '\u{4e2d}\u{6587}\u{4e2d}\u{6587}\u{4e2d}\u{6587}\u{4e2d}\u{6587}\u{4e2d}\u{6587}\u{4e2d}\u{6587}\u{4e2d}\u{6587}';", "//\u{4e2d}\u{6587}\u{4e2d}\u{6587}\u{4e2d}\u{6587}\u{4e2d}\u{6587}\u{4e2d}\u{6587}\u{4e2d}\u{6587}\u{4e2d}\u{6587}\u{4e2d}\u{6587}\na;"];
        let cases: [(&'static Encoding, &[u8]); 4] = [
            (encoding_rs::UTF_8, &[]), (encoding_rs::UTF_8, &[0xEF, 0xBB, 0xBF]), (encoding_rs::UTF_16LE, &[0xFF, 0xFE]), (encoding_rs::UTF_16BE, &[0xFE, 0xFF]),
        ];
        for (i, input) in inputs.iter().enumerate() {
            for (j, (enc, bom)) in cases.iter().enumerate() {
                let path = dir.join(format!("f{}_{}.pas", i, j));
                let mut bytes: Vec<u8> = bom.to_vec();
                if *enc == encoding_rs::UTF_16LE { bytes.extend(utf16(input, true)); } else if *enc == encoding_rs::UTF_16BE { bytes.extend(utf16(input, false)); } else { bytes.extend(input.as_bytes()); }
                std::fs::write(&path, &bytes).unwrap();
                let f = ff(encoding_rs::UTF_8);
                let p = [path.to_string_lossy().to_string()];
                // check mode never writes
                let failed = std::sync::atomic::AtomicBool::new(false);
                f.check_files(&p, |_e| failed.store(true, std::sync::atomic::Ordering::SeqCst));
                assert!(std::fs::read(&path).unwrap() == bytes, "OB filefmt/check_mode_does_not_write: check mode never modifies a file\n input={:?}", input);
                // expected result through the in-memory path
                let mut buf = Vec::new();
                let d = f.decode_file(&bytes[..], "x", &mut buf).unwrap();
                let formatted = f.formatter.format(&d.contents, FileOptions::new());
                assert!(failed.load(std::sync::atomic::Ordering::SeqCst) == (formatted != d.contents), "OB filefmt/check_mode_exit: check mode reports an error exactly when the content differs from its formatted form\n input={:?}", input);
                let mut exp: Vec<u8> = Vec::new();
                FileFormatter::write_file(&mut exp, &d, &formatted).unwrap();
                f.format_files(&p, |e| panic!("unexpected error {e}"), &[]);
                let got = std::fs::read(&path).unwrap();
                assert!(got == exp, "OB filefmt/files_mode_bytes: files mode leaves exactly BOM ++ encode(format(decode(bytes))) in the file (no stale tail)\n input={:?} enc={} got={:?} expected={:?}", input, enc.name(), got, exp);
                n += 1;
            }
        }
        // files in a configured single-byte / legacy encoding (no BOM): the same clause; texts with characters that are longer in UTF-8
        for (j, enc) in [encoding_rs::WINDOWS_1252, encoding_rs::SHIFT_JIS, encoding_rs::GBK].iter().enumerate() {
            for (i, input) in ["a  :=  1; // caf\u{e9} \u{e9}\u{e9}\u{e9}\u{e9}\u{e9}\u{e9}", "a:=1;", "BEGIN  x  :=  '\u{e9}\u{e8}\u{e0}\u{f9}\u{e7}\u{e9}\u{e8}\u{e0}\u{f9}\u{e7}'; END"].iter().enumerate() {
                let (encoded, _, unmappable) = enc.encode(input);
                if unmappable { continue; }
                let bytes = encoded.to_vec();
                let path = dir.join(format!("g{}_{}.pas", i, j));
                std::fs::write(&path, &bytes).unwrap();
                let f = ff(enc);
                let p = [path.to_string_lossy().to_string()];
                let mut buf = Vec::new();
                let d = f.decode_file(&bytes[..], "x", &mut buf).unwrap();
                let formatted = f.formatter.format(&d.contents, FileOptions::new());
                let mut exp: Vec<u8> = Vec::new();
                FileFormatter::write_file(&mut exp, &d, &formatted).unwrap();
                f.format_files(&p, |e| panic!("unexpected error {e}"), &[]);
                let got = std::fs::read(&path).unwrap();
                assert!(got == exp, "OB filefmt/files_mode_bytes: files mode leaves exactly BOM ++ encode(format(decode(bytes))) in the file (no stale tail)\n input={:?} enc={} got={:?} expected={:?}", input, enc.name(), got, exp);
                n += 1;
            }
        }
        // an undecodable file is left untouched and reported
        let path = dir.join("bad.pas");
        let bytes = vec![b'a', 0xFF, b';', b' ', b' '];
        std::fs::write(&path, &bytes).unwrap();
        let f = ff(encoding_rs::UTF_8);
        let failed = std::sync::atomic::AtomicBool::new(false);
        f.format_files(&[path.to_string_lossy().to_string()], |_e| failed.store(true, std::sync::atomic::Ordering::SeqCst), &[]);
        assert!(failed.load(std::sync::atomic::Ordering::SeqCst) && std::fs::read(&path).unwrap() == bytes, "OB filefmt/undecodable_untouched: a file that cannot be decoded is reported and left byte for byte untouched");
        n += 1;
        let _ = std::fs::remove_dir_all(&dir);
        println!("NX filefmt_files_mode: {} cases", n);
        assert!(n >= 40, "enumeration ran");
    }
}
