// NX stand-ins for two looping sub-scanners whose Kani harnesses did not terminate:
// identifier_or_keyword (keyword table wiring) and compiler_directive (non-nested forms).
#[cfg(verif_nx)]
mod verif_nx_lex {
    use super::*;

    fn lower(s: &str) -> String {
        s.to_ascii_lowercase()
    }

    // every word: all listed keywords in three casings, near misses (one letter appended / dropped / changed), and all
    // words of <= 3 characters over a small alphabet; each followed by every delimiter class, after `.` or not
    #[test]
    fn verif_nx_lex_words() {
        let mut words: Vec<String> = Vec::new();
        for (k, _) in KEYWORDS.iter() {
            words.push(k.to_string());
            words.push(k.to_ascii_uppercase());
            let alt: String = k.char_indices().map(|(i, c)| if i % 2 == 0 { c.to_ascii_uppercase() } else { c }).collect();
            words.push(alt);
            words.push(format!("{}x", k));
            words.push(format!("{}_", k));
            words.push(k[..k.len() - 1].to_string());
            let mut ch: Vec<u8> = k.bytes().collect();
            let last = ch.len() - 1;
            ch[last] = if ch[last] == b'z' { b'y' } else { ch[last] + 1 };
            words.push(String::from_utf8(ch).unwrap());
        }
        let alpha = ["a", "e", "i", "o", "n", "d", "s", "f", "t", "Z", "_", "0", "\u{e9}"];
        for a in alpha { if a != "0" { for b in alpha.iter().chain([""].iter()) { for c in alpha.iter().chain([""].iter()) {
            words.push(format!("{}{}{}", a, b, c));
        }}}}
        let mut n = 0u64;
        for w in &words {
            if w.is_empty() || !(w.as_bytes()[0].is_ascii_alphabetic()) {
                continue;
            }
            for delim in ["", " ", ";", ".", "\u{3000}", "(", "\n", "'"] {
                for after_dot in [false, true] {
                    let input = format!("{}{}", w, delim);
                    let mut state = LexState { is_first: false, in_asm: false, prev_real_token: if after_dot { Some(TT::Op(OK::Dot)) } else { None } };
                    let r = identifier_or_keyword(LexArgs { input: &input, offset: 1, lex_state: &mut state });
                    assert!(r.0 == w.len(), "OB lexnx/word_extent: a word is the maximal run of identifier characters\n input={:?} got_end={}", input, r.0);
                    let exp = if after_dot { TT::Identifier } else {
                        KEYWORDS.iter().find(|(k, _)| *k == lower(w)).map(|(_, t)| *t).unwrap_or(TT::Identifier)
                    };
                    assert!(r.1 == exp, "OB lexnx/word_kind: a word is a keyword exactly when it equals a listed keyword ignoring ASCII case (never after `.`)\n input={:?} after_dot={} got={:?} expected={:?}", input, after_dot, r.1, exp);
                    assert!(state.in_asm == (exp == TT::Keyword(KK::Asm)), "OB lexnx/asm_mode: only the keyword asm switches to the asm scanner\n input={:?}", input);
                    n += 1;
                }
            }
        }
        println!("NX lex_words: {} cases", n);
        assert!(n > 40_000, "enumeration ran");
    }

    // `{$name rest}` / `(*$name rest*)` without nested comment / string / directive openers in `rest`
    #[test]
    fn verif_nx_lex_directives() {
        let names = ["if", "IFDEF", "ifndef", "IfOpt", "elseif", "else", "ifend", "endif", "i", "R", "define", "ifx", "endi", "", "1", "_if"];
        let rests = ["", " X", " X and Y", "+", " \n a", "}", " x}y", "*)", " a*)b", " \u{e9}"];
        let mut n = 0u64;
        for alt in [false, true] {
            for name in names {
                for rest in rests {
                    for closed in [true, false] {
                        let (open, close) = if alt { ("(*$", "*)") } else { ("{$", "}") };
                        let input = format!("{}{}{}{} tail", open, name, rest, if closed { close } else { "" });
                        let lname = name.to_ascii_lowercase();
                        let mut state = LexState { is_first: false, in_asm: false, prev_real_token: None };
                        let r = compiler_directive(
                            LexArgs { input: &input, offset: open.len(), lex_state: &mut state },
                            if alt { BlockCommentKind::ParenStar } else { BlockCommentKind::Brace },
                        );
                        let kind = match lname.as_str() {
                            "if" => TT::ConditionalDirective(CDK::If),
                            "ifdef" => TT::ConditionalDirective(CDK::Ifdef),
                            "ifndef" => TT::ConditionalDirective(CDK::Ifndef),
                            "ifopt" => TT::ConditionalDirective(CDK::Ifopt),
                            "elseif" => TT::ConditionalDirective(CDK::Elseif),
                            "else" => TT::ConditionalDirective(CDK::Else),
                            "ifend" => TT::ConditionalDirective(CDK::Ifend),
                            "endif" => TT::ConditionalDirective(CDK::Endif),
                            _ => TT::CompilerDirective,
                        };
                        assert!(r.1 == kind, "OB lexnx/directive_kind: the directive name (any case) decides the kind\n input={:?} got={:?} expected={:?}", input, r.1, kind);
                        assert!(r.0 <= input.len() && input.is_char_boundary(r.0), "OB lexnx/directive_ok: end within the input on a character boundary\n input={:?} end={}", input, r.0);
                        // the first terminator after the opener ends the directive; without one it runs to the end (minus trailing blanks)
                        let after = &input[open.len()..];
                        let exp = match after.find(close) {
                            Some(p) => open.len() + p + close.len(),
                            None => input.trim_end().len(),
                        };
                        assert!(r.0 == exp, "OB lexnx/directive_extent: a directive ends with its first terminator, or at the end of input if unterminated\n input={:?} got_end={} expected={}", input, r.0, exp);
                        n += 1;
                    }
                }
            }
        }
        println!("NX lex_directives: {} cases", n);
        assert!(n > 600, "enumeration ran");
    }
    // nested directive expressions ({$if ...} may contain comments, strings and further directives): the only recursion in
    // the scanner (find_directive_expr_end <-> parse_directive_expr).  Every sequence of <= 5 items is scanned under a watchdog.
    #[test]
    fn verif_nx_lex_nested_directives() {
        // one worker scans all inputs; the test thread watches its progress (an endless loop shows as "no progress for 10 s")
        use std::sync::{Arc, Mutex};
        let current: Arc<Mutex<(String, u64)>> = Arc::new(Mutex::new((String::new(), 0)));
        let cur2 = current.clone();
        let worker = std::thread::spawn(move || {
            let alpha = ["{$if ", "{$ifdef ", "{$elseif ", "{$endif}", "(*$if ", "{", "}", "(*", "*)", "'", "//", "\n", "x ", "defined(A)", "{$"];
            let mut n = 0u64;
            let mut idx: Vec<usize> = Vec::new();
            loop {
                let text: String = idx.iter().map(|&i| alpha[i]).collect();
                {
                    let mut g = cur2.lock().unwrap();
                    g.0 = text.clone();
                    g.1 = n;
                }
                let r = std::panic::catch_unwind(|| {
                    let toks = lex_complete(&text);
                    let joined: String = toks.iter().map(|t| t.get_str()).collect();
                    let kinds_ok = toks.iter().all(|t| {
                        let c = t.get_content();
                        let is_dir = matches!(t.get_token_type(), TT::CompilerDirective | TT::ConditionalDirective(_));
                        (c.starts_with("{$") || c.starts_with("(*$")) == is_dir
                    });
                    (joined == text, kinds_ok)
                });
                match r {
                    Ok((lossless, kinds_ok)) => {
                        assert!(lossless, "OB lexnx/nested_lossless: tokens concatenate back to the input\n input={:?}", text);
                        assert!(kinds_ok, "OB lexnx/nested_directive_kinds: exactly the tokens that start with a directive opener are directives\n input={:?}", text);
                    }
                    Err(_) => panic!("OB lexnx/nested_returns: scanning never aborts\n input={:?}", text),
                }
                n += 1;
                let mut k = idx.len();
                let mut done = false;
                loop {
                    if k == 0 {
                        if idx.len() == 5 { done = true; } else { idx = vec![0; idx.len() + 1]; }
                        break;
                    }
                    k -= 1;
                    if idx[k] + 1 < alpha.len() {
                        idx[k] += 1;
                        for j in k + 1..idx.len() { idx[j] = 0; }
                        break;
                    }
                }
                if done { break; }
            }
            n
        });
        let mut last = (u64::MAX, std::time::Instant::now());
        while !worker.is_finished() {
            std::thread::sleep(std::time::Duration::from_millis(200));
            let g = current.lock().unwrap();
            if g.1 != last.0 {
                last = (g.1, std::time::Instant::now());
            } else if last.1.elapsed().as_secs() >= 10 {
                panic!("OB lexnx/nested_terminates: scanning nested directive expressions terminates (no progress for 10 s)\n input={:?}", g.0);
            }
        }
        let n = match worker.join() {
            Ok(n) => n,
            Err(e) => std::panic::resume_unwind(e),
        };
        println!("NX lex_nested_directives: {} cases", n);
        assert!(n > 800_000, "enumeration ran");
    }


    fn is_blank_char(c: char) -> bool { c <= '\u{20}' || c == '\u{3000}' }

    // C13 first sentence, as a bounded stand-in for what the Verus unit `lexloop` has to assume about
    // count_leading_whitespace / count_unicode_whitespace (iterator adapters, kept as a stub there) and as the
    // executable partner of the whole-loop proof: every short text over an alphabet of blank and non-blank
    // characters (ASCII blanks, CR, LF, NUL, DEL, U+3000, U+00A0, a 2-byte and a 3-byte letter, openers, operators).
    #[test]
    fn verif_nx_lex_tokspec_small() {
        const ITEMS: [&str; 27] = ["a", "Z", "1", "_", " ", "\t", "\n", "\r", "\u{3000}", "\u{a0}", "\u{e9}", "\u{4e2d}", ".", ":", "=", "'", "\"", "{", "}", "(", "*", ")", "/", "$", "#", "\u{0}", "\u{7f}"];
        let max_len: usize = if std::env::var("VERIF_NX_THOROUGH").is_ok() { 5 } else { 4 };
        let mut n = 0u64;
        let mut blank_after_wide = 0u64;
        let mut idx = vec![0usize; 0];
        for len in 0..=max_len {
            idx.clear();
            idx.resize(len, 0);
            loop {
                let mut text = String::new();
                for &i in &idx { text.push_str(ITEMS[i]); }
                let t2 = text.clone();
                let toks = match std::panic::catch_unwind(move || {
                    lex_complete(&t2).iter().map(|t| (t.get_leading_whitespace().to_owned(), t.get_content().to_owned(), t.get_token_type())).collect::<Vec<_>>()
                }) {
                    Ok(t) => t,
                    Err(_) => panic!("OB lexnx/tokspec_returns: scanning never aborts\n input={:?}", text),
                };
                n += 1;
                if text.contains("\u{3000} ") || text.contains("\u{3000}\t") { blank_after_wide += 1; }
                let cat: String = toks.iter().map(|t| format!("{}{}", t.0, t.1)).collect();
                assert!(cat == text, "OB lexnx/tokspec_lossless: leading blanks and contents concatenate back to exactly the input\n input={:?} got={:?}", text, cat);
                let eofs = toks.iter().filter(|t| t.2 == TT::Eof).count();
                assert!(eofs == 1 && toks.last().map(|t| t.2) == Some(TT::Eof), "OB lexnx/tokspec_one_eof_last: exactly one end-of-file token, last\n input={:?} kinds={:?}", text, toks.iter().map(|t| t.2).collect::<Vec<_>>());
                for t in &toks {
                    assert!(t.0.chars().all(is_blank_char), "OB lexnx/tokspec_leading_blanks: the leading part of a token consists of blanks only\n input={:?} token={:?}", text, t);
                    if t.2 != TT::Eof {
                        assert!(!t.1.is_empty() && !is_blank_char(t.1.chars().next().unwrap()), "OB lexnx/tokspec_content_nonblank: every other token has non-empty content that starts at a non-blank character\n input={:?} token={:?}", text, t);
                    } else {
                        assert!(t.1.is_empty(), "OB lexnx/tokspec_eof_empty: the end-of-file token has no content (trailing blanks are its leading part)\n input={:?} token={:?}", text, t);
                    }
                }
                // C13 second sentence on the same texts: extents and kinds of comments and single-line literals by
                // the Delphi rules (a comment ends at its FIRST closer / before the first line break; an unterminated
                // block comment runs to the end of the text minus trailing blanks; a literal that holds a line break
                // opens with an odd run of >= 3 quotes directly followed by a line break)
                let mut pos = 0usize;
                for t in &toks {
                    let start = pos + t.0.len();
                    pos = start + t.1.len();
                    let c = t.1.as_str();
                    let rest = &text[start..];
                    let to_end = rest.trim_end_matches(is_blank_char).len();
                    let opens_block = (c.starts_with('{') && !c.starts_with("{$")) || (c.starts_with("(*") && !c.starts_with("(*$"));
                    if c.starts_with("//") || opens_block {
                        assert!(matches!(t.2, TT::Comment(_)), "OB lexnx/tokspec_comment_kind: a token that opens with //, {{ or (* (and no $) is a comment\n input={:?} token={:?}", text, t);
                    }
                    if let TT::Comment(_) = t.2 {
                        let expect = if c.starts_with("//") {
                            rest.find(['\n', '\r']).unwrap_or(rest.len())
                        } else if c.starts_with("(*") {
                            rest[2..].find("*)").map(|i| i + 4).unwrap_or(to_end)
                        } else if c.starts_with('{') {
                            rest.find('}').map(|i| i + 1).unwrap_or(to_end)
                        } else {
                            panic!("OB lexnx/tokspec_comment_kind: a comment opens with //, {{ or (*\n input={:?} token={:?}", text, t)
                        };
                        assert!(c.len() == expect, "OB lexnx/tokspec_comment_extent: a comment ends directly after its first closer (line comment: before the first line break; unterminated: at the end of the text minus trailing blanks)\n input={:?} token={:?} expected_len={}", text, t, expect);
                    }
                    if let TT::TextLiteral(_) = t.2 {
                        if c.contains(['\n', '\r']) {
                            let q = c.bytes().take_while(|b| *b == b'\'').count();
                            let after = c.as_bytes().get(q).copied();
                            assert!(q >= 3 && q % 2 == 1 && (after == Some(b'\n') || after == Some(b'\r')), "OB lexnx/tokspec_literal_single_line: only a literal that opens with an odd run of >= 3 quotes directly followed by a line break may hold a line break\n input={:?} token={:?}", text, t);
                        }
                    }
                }
                // next index vector
                let mut k = len;
                let mut done = true;
                while k > 0 {
                    k -= 1;
                    idx[k] += 1;
                    if idx[k] < ITEMS.len() { done = false; break; }
                    idx[k] = 0;
                }
                if done { break; }
            }
        }
        assert!(n > 500_000 && blank_after_wide > 1000, "vacuity guard: {} texts, {} with a blank after U+3000", n, blank_after_wide);
        println!("NX verif_nx_lex_tokspec_small: {} cases", n);
    }
}
