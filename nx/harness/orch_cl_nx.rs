// accessor for the NX configuration stand-in (find_config_file is private to this module)
#[cfg(verif_nx)]
impl<C: Configuration> PasFmtConfiguration<C> {
    pub fn verif_nx_find_config_file(search_dir: PathBuf) -> Option<PathBuf> {
        Self::find_config_file(search_dir)
    }
}
