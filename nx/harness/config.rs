// NX stand-in for C19 (configuration resolution): the real CLI parser (clap), the real layering
// (config::ConfigBuilder: file source, then one override per -C) and strict deserialisation into FormattingConfig,
// executed natively with real files in a temporary directory tree.
// Contract: effective value of every option = -C value, else the value in the configuration file, else the default;
// the nearest pasfmt.toml walking up from the start directory is the one used; --config-file wins over the search and
// must name an existing regular file; unknown keys and ill-typed values are rejected (Err) wherever they come from;
// files mode + stdin is rejected.
#[cfg(verif_nx)]
mod verif_nx_config {
    use super::*;
    use pasfmt_orchestrator::command_line::clap::Parser;

    pasfmt_config!(NxCli<FormattingConfig>);

    fn parse(args: &[String]) -> Result<PasFmtConfiguration<FormattingConfig>, String> {
        let mut v = vec!["pasfmt".to_string()];
        v.extend(args.iter().cloned());
        match NxCli::try_parse_from(v) {
            Err(e) => Err(format!("clap: {}", e.kind())),
            Ok(cli) => cli.validate().map_err(|_| "validate".to_string()),
        }
    }

    // (key, value as written, check of the resolved config)
    type Opt = (&'static str, &'static str, fn(&FormattingConfig) -> bool);
    const A: [Opt; 5] = [
        ("wrap_column", "77", |c| c.wrap_column == 77),
        ("use_tabs", "true", |c| c.use_tabs),
        ("tab_width", "5", |c| c.tab_width == 5),
        ("line_ending", "\"crlf\"", |c| matches!(c.line_ending, LineEnding::Crlf)),
        ("begin_style", "\"always_wrap\"", |c| matches!(c.begin_style, BeginStyle::Always_Wrap)),
    ];
    const B: [Opt; 5] = [
        ("wrap_column", "33", |c| c.wrap_column == 33),
        ("use_tabs", "false", |c| !c.use_tabs),
        ("tab_width", "9", |c| c.tab_width == 9),
        ("line_ending", "\"lf\"", |c| matches!(c.line_ending, LineEnding::Lf)),
        ("begin_style", "\"auto\"", |c| matches!(c.begin_style, BeginStyle::Auto)),
    ];
    fn is_default(i: usize, c: &FormattingConfig) -> bool {
        let d = FormattingConfig::default();
        match i {
            0 => c.wrap_column == d.wrap_column,
            1 => c.use_tabs == d.use_tabs,
            2 => c.tab_width == d.tab_width,
            3 => matches!(c.line_ending, LineEnding::Native),
            _ => matches!(c.begin_style, BeginStyle::Auto),
        }
    }

    #[test]
    fn verif_nx_config_precedence() {
        let root = std::env::temp_dir().join(format!("verif_nx_cfg_{}", std::process::id()));
        let _ = std::fs::remove_dir_all(&root);
        std::fs::create_dir_all(&root).unwrap();
        let file = root.join("explicit.toml");
        let mut n = 0u64;
        // every assignment of the 5 options to {unset, file only (A), command line only (B), both (file A, cli B)}
        for code in 0..4usize.pow(5) {
            let mut toml = String::new();
            let mut args: Vec<String> = vec!["--config-file".into(), file.to_string_lossy().into()];
            let mut how = [0usize; 5];
            let mut c = code;
            for i in 0..5 {
                how[i] = c % 4;
                c /= 4;
                if how[i] == 1 || how[i] == 3 {
                    toml.push_str(&format!("{} = {}\n", A[i].0, A[i].1));
                }
                if how[i] == 2 || how[i] == 3 {
                    args.push("-C".into());
                    args.push(format!("{}={}", B[i].0, B[i].1.trim_matches('"')));
                }
            }
            std::fs::write(&file, &toml).unwrap();
            let cfg = parse(&args).expect("arguments are valid");
            let resolved = cfg.get_config_object();
            let resolved = match resolved {
                Ok(r) => r,
                Err(e) => panic!("OB config/valid_accepted: valid settings are accepted wherever they are given\n file={:?} args={:?} err={:#}", toml, args, e),
            };
            for i in 0..5 {
                let ok = match how[i] {
                    0 => is_default(i, &resolved),
                    1 => (A[i].2)(&resolved),
                    _ => (B[i].2)(&resolved),
                };
                assert!(ok, "OB config/precedence: effective value = -C value, else configuration file value, else default\n option={} how={} file={:?} args={:?} resolved={:?}", A[i].0, how[i], toml, args, resolved);
            }
            n += 1;
        }
        // unknown keys and ill-typed values are rejected, from the file and from -C
        for (toml, extra) in [
            ("wrap_colum = 3\n", vec![]), ("wrap_column = \"x\"\n", vec![]), ("tab_width = 300\n", vec![]), ("use_tabs = \"maybe\"\n", vec![]),
            ("line_ending = \"cr\"\n", vec![]), ("[nested]\nwrap_column = 1\n", vec![]),
            ("", vec!["-C", "wrap_colum=3"]), ("", vec!["-C", "wrap_column=x"]), ("", vec!["-C", "tab_width=-1"]), ("", vec!["-C", "begin_style=sometimes"]),
            ("wrap_column = 50\n", vec!["-C", "nonsense=1"]),
        ] {
            std::fs::write(&file, toml).unwrap();
            let mut args: Vec<String> = vec!["--config-file".into(), file.to_string_lossy().into()];
            args.extend(extra.iter().map(|s| s.to_string()));
            let cfg = parse(&args).expect("arguments parse");
            assert!(cfg.get_config_object().is_err(), "OB config/invalid_rejected: unknown keys and ill-typed values are rejected\n file={:?} args={:?}", toml, args);
            n += 1;
        }
        // --config-file must exist and be a regular file
        for bad in [root.join("missing.toml"), root.clone()] {
            let args: Vec<String> = vec!["--config-file".into(), bad.to_string_lossy().into()];
            let r = parse(&args).and_then(|c| c.get_config_object().map_err(|e| format!("{e:#}")));
            assert!(r.is_err(), "OB config/config_file_must_exist: --config-file must name an existing regular file\n path={:?}", bad);
            n += 1;
        }
        // nearest pasfmt.toml walking up from the start directory
        let deep = root.join("a").join("b").join("c").join("d");
        std::fs::create_dir_all(&deep).unwrap();
        for with_at in 0..16usize {
            // bit k set: a pasfmt.toml exists k levels above `deep`
            let mut dirs = vec![deep.clone()];
            for _ in 0..3 {
                let p = dirs.last().unwrap().parent().unwrap().to_path_buf();
                dirs.push(p);
            }
            for (k, d) in dirs.iter().enumerate() {
                let f = d.join("pasfmt.toml");
                let _ = std::fs::remove_file(&f);
                if with_at & (1 << k) != 0 {
                    std::fs::write(&f, format!("wrap_column = {}\n", 100 + k)).unwrap();
                }
            }
            let found = PasFmtConfiguration::<FormattingConfig>::verif_nx_find_config_file(deep.clone());
            let expect = (0..4).find(|k| with_at & (1 << k) != 0).map(|k| dirs[k].join("pasfmt.toml"));
            if with_at != 0 {
                assert!(found == expect, "OB config/nearest_ancestor: the nearest pasfmt.toml walking up from the start directory is used\n mask={:04b} found={:?} expected={:?}", with_at, found, expect);
            } else {
                // nothing in the four levels we control: whatever is found (if anything) lies above them
                assert!(found.as_ref().map_or(true, |f| !f.starts_with(&root)), "OB config/nearest_ancestor: no file is invented\n found={:?}", found);
            }
            n += 1;
        }
        // --config-file REPLACES the discovered pasfmt.toml (it is not layered on top of it); without it the discovered file is used.
        // The working directory is switched for this block only (nothing else in this test binary reads relative paths).
        {
            let proj = root.join("proj");
            let sub = proj.join("src").join("deep");
            std::fs::create_dir_all(&sub).unwrap();
            let discovered = proj.join("pasfmt.toml");
            let explicit2 = root.join("explicit2.toml");
            std::fs::write(&explicit2, "tab_width = 4\n").unwrap();
            let old = std::env::current_dir().unwrap();
            std::env::set_current_dir(&sub).unwrap();
            std::fs::write(&discovered, "wrap_column = 40\nline_ending = \"crlf\"\n").unwrap();
            let with_explicit = parse(&["--config-file".to_string(), explicit2.to_string_lossy().to_string()]).and_then(|c| c.get_config_object().map_err(|e| format!("{e:#}")));
            let without = parse(&[]).and_then(|c| c.get_config_object().map_err(|e| format!("{e:#}")));
            std::fs::write(&discovered, "nonsense = 1\n").unwrap();
            let invalid_discovered = parse(&["--config-file".to_string(), explicit2.to_string_lossy().to_string()]).and_then(|c| c.get_config_object().map_err(|e| format!("{e:#}")));
            std::env::set_current_dir(&old).unwrap();
            let d = FormattingConfig::default();
            match with_explicit {
                Ok(c) => assert!(c.tab_width == 4 && c.wrap_column == d.wrap_column && matches!(c.line_ending, LineEnding::Native),
                    "OB config/precedence: with --config-file the discovered pasfmt.toml plays no part (file value, else default)\n resolved={:?}", c),
                Err(e) => panic!("OB config/valid_accepted: a valid --config-file is accepted\n err={}", e),
            }
            match without {
                Ok(c) => assert!(c.wrap_column == 40 && matches!(c.line_ending, LineEnding::Crlf) && c.tab_width == d.tab_width,
                    "OB config/nearest_ancestor: without --config-file the nearest pasfmt.toml above the working directory is used\n resolved={:?}", c),
                Err(e) => panic!("OB config/valid_accepted: a valid discovered file is accepted\n err={}", e),
            }
            assert!(invalid_discovered.is_ok(), "OB config/precedence: with --config-file the discovered pasfmt.toml is not even read\n err={:?}", invalid_discovered.err());
            n += 3;
        }
        // files mode needs paths
        assert!(parse(&["--mode=files".to_string()]).is_err(), "OB config/files_mode_needs_paths: files mode is rejected when reading from stdin");
        assert!(parse(&["--mode=check".to_string()]).is_ok() && parse(&["x.pas".to_string()]).is_ok(), "OB config/files_mode_needs_paths: other combinations are accepted");
        n += 1;
        let _ = std::fs::remove_dir_all(&root);
        println!("NX config_precedence: {} cases", n);
        assert!(n > 1_000, "enumeration ran");
    }
}
