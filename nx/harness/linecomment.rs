// NX stand-in extending KX `rewriters` to comment lengths Kani cannot reach (the separator rule needs >= 10 bytes):
// format_line_comment against the documented normalisation, and as a fixpoint (C03).
//   result = prefix (`//` or `///`) + one space if text follows directly and the comment is not a separator line
//            + text, with trailing ASCII blanks trimmed;
//   separator line = after trimming trailing blanks the text is >= 10 bytes of one repeated non-alphanumeric character.
#[cfg(verif_nx)]
mod verif_nx_linecomment {
    use super::*;

    fn ws(c: char) -> bool {
        matches!(c, ' ' | '\t' | '\u{c}' | '\n' | '\r')
    }

    fn oracle(content: &str) -> String {
        let p = if content.starts_with("///") { 3 } else { 2 };
        let body = &content[p..];
        let trimmed = body.trim_end_matches(ws);
        let mut chars = trimmed.chars();
        let sep = trimmed.len() >= 10
            && chars.next().is_some_and(|c| !c.is_alphanumeric())
            && trimmed.chars().all(|c| c == trimmed.chars().next().unwrap());
        let mut out = String::from(&content[..p]);
        if body.chars().next().is_some_and(|c| !ws(c)) && !sep {
            out.push(' ');
        }
        out.push_str(body);
        out.trim_end_matches(ws).to_string()
    }

    fn check(content: &str, n: &mut u64) {
        let mut tok = Token::new_ref(content, 0, TokenType::Comment(CommentKind::IndividualLine));
        format_line_comment(&mut tok);
        let got = tok.get_content().to_string();
        let exp = oracle(content);
        assert!(got == exp, "OB linecomment/normal_form: prefix, one space unless blank / separator follows, text, trailing blanks trimmed\n input={:?} got={:?} expected={:?}", content, got, exp);
        let mut tok2 = Token::new_ref(&got, 0, TokenType::Comment(CommentKind::IndividualLine));
        format_line_comment(&mut tok2);
        assert!(tok2.get_content() == got, "OB linecomment/fixpoint: normalising a normalised comment changes nothing\n input={:?} first={:?} second={:?}", content, got, tok2.get_content());
        *n += 1;
    }

    #[test]
    fn verif_nx_linecomment_normalise() {
        let mut n = 0u64;
        for prefix in ["//", "///"] {
            // runs of one character around the separator threshold, with every tail
            for c in ['-', '=', '*', 'a', '/', ' ', '\u{e9}', '1', '\u{2550}', '\u{b7}', '\u{2014}'] {
                for k in 0..=13usize {
                    for tail in ["", " ", "  ", "x", " x", "\t", " \t ", "-", "- "] {
                        for lead in ["", " "] {
                            let body: String = std::iter::repeat(c).take(k).collect();
                            check(&format!("{}{}{}{}", prefix, lead, body, tail), &mut n);
                        }
                    }
                }
            }
            // every body of <= 5 items over a small alphabet
            let alpha = ["a", "-", " ", "/", "\t", "\u{e9}"];
            let mut idx: Vec<usize> = Vec::new();
            loop {
                let body: String = idx.iter().map(|&i| alpha[i]).collect();
                check(&format!("{}{}", prefix, body), &mut n);
                let mut k = idx.len();
                let mut done = false;
                loop {
                    if k == 0 {
                        if idx.len() == 5 {
                            done = true;
                        } else {
                            idx = vec![0; idx.len() + 1];
                        }
                        break;
                    }
                    k -= 1;
                    if idx[k] + 1 < alpha.len() {
                        idx[k] += 1;
                        for j in k + 1..idx.len() {
                            idx[j] = 0;
                        }
                        break;
                    }
                }
                if done {
                    break;
                }
            }
        }
        println!("NX linecomment_normalise: {} cases", n);
        assert!(n > 20_000, "enumeration ran");
    }
}
