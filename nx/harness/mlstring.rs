// NX stand-in for U10 `mlstring` — StringFormatter::try_rewrite_string / lines_custom / format_multiline_strings.
// (Verus rejects the stateful-closure iterator code; Kani needed 12.8 min for lines_custom alone on 6 bytes.)
//
// Contract (C12), checked by native execution for EVERY literal body over the alphabet below up to the bound:
//   the literal  '''<EOL> L1 <EOL> ... Lk <EOL> B'''   (B = base indentation = blanks before the closing quotes)
//   * if every interior line Li starts with B, or is a prefix of B: the result is
//         '''  NL  I+value(L1)  NL ... NL  I+value(Lk)  NL  I'''
//     with NL the configured line ending, I = IND^ind CONT^cont, value(Li) = Li without the prefix B (lines that
//     are a prefix of B, and lines with empty value, become empty);  the value of every line is unchanged, trailing
//     blanks included, and line terminators LF / CR / CRLF all end a line;
//   * otherwise the literal is returned untouched (None);
//   * rewriting the result again with base indentation I is the identity (C03).
#[cfg(verif_nx)]
mod verif_nx_mlstring {
    use super::*;

    const ALPHA: [&str; 7] = ["a", " ", "\t", "\u{A0}", "\n", "\r", "\r\n"];

    fn split_lines(s: &str) -> Vec<&str> {
        // independent line splitter: LF, CR and CRLF each end a line
        let b = s.as_bytes();
        let mut out = Vec::new();
        let mut start = 0;
        let mut i = 0;
        while i < b.len() {
            if b[i] == b'\n' {
                out.push(&s[start..i]);
                i += 1;
                start = i;
            } else if b[i] == b'\r' {
                out.push(&s[start..i]);
                i += if i + 1 < b.len() && b[i + 1] == b'\n' { 2 } else { 1 };
                start = i;
            } else {
                i += 1;
            }
        }
        out.push(&s[start..]);
        out
    }

    fn check(body: &str, base: &str, crlf: bool, hard: bool, ind: u16, cont: u16, count: &mut u64) {
        let original = format!("'''\n{}\n{}'''", body, base);
        let rs = ReconstructionSettings::new(if crlf { LineEnding::Crlf } else { LineEnding::Lf }, if hard { TabKind::Hard } else { TabKind::Soft }, if hard { 1 } else { 2 }, 3);
        let nl = if crlf { "\r\n" } else { "\n" };
        let new_indent = if hard {
            format!("{}{}", "\t".repeat(ind as usize), "\t\t\t".repeat(cont as usize))
        } else {
            format!("{}{}", "  ".repeat(ind as usize), "   ".repeat(cont as usize))
        };
        let sf = StringFormatter { recon_settings: &rs };
        let fmt = FormattingData::verif_nx_new(false, 1, ind, cont, 0);
        let got = sf.try_rewrite_string(&original, &fmt, base);
        // oracle
        let lines = split_lines(&original);
        let mut ok = true;
        let mut exp = String::from(lines[0]);
        for l in &lines[1..] {
            exp.push_str(nl);
            if let Some(v) = l.strip_prefix(base) {
                if !v.is_empty() {
                    exp.push_str(&new_indent);
                    exp.push_str(v);
                }
            } else if base.starts_with(l) {
                // shorter than the base indentation: becomes an empty line
            } else {
                ok = false;
                break;
            }
        }
        *count += 1;
        match (ok, &got) {
            (false, None) => {}
            (true, Some(g)) => {
                assert!(*g == exp, "OB mlstring/value_preserved: interior lines keep their value, indentation and terminators are rewritten\n input={:?} base={:?} crlf={} use_tabs={} ind={} cont={}\n got={:?}\n exp={:?}", original, base, crlf, hard, ind, cont, g, exp);
                // fixpoint: the result, read again with its own base indentation, is unchanged
                let again = sf.try_rewrite_string(g, &fmt, &new_indent);
                assert!(again.as_deref() == Some(g.as_str()), "OB mlstring/fixpoint: re-indenting a re-indented literal changes nothing\n input={:?} first={:?} second={:?}", original, g, again);
            }
            (false, Some(g)) => panic!("OB mlstring/untouched_when_misindented: a literal whose interior lines do not start with the closing quotes' indentation must be left alone\n input={:?} base={:?} got={:?}", original, base, g),
            (true, None) => panic!("OB mlstring/rewritten_when_well_indented: a well-indented literal is re-indented\n input={:?} base={:?}", original, base),
        }
    }

    fn enumerate(max_len: usize, f: &mut dyn FnMut(&str)) {
        // all concatenations of up to max_len alphabet items
        let mut idx = vec![0usize; 0];
        loop {
            let s: String = idx.iter().map(|&i| ALPHA[i]).collect();
            f(&s);
            // next
            let mut k = idx.len();
            loop {
                if k == 0 {
                    if idx.len() == max_len {
                        return;
                    }
                    idx = vec![0; idx.len() + 1];
                    break;
                }
                k -= 1;
                if idx[k] + 1 < ALPHA.len() {
                    idx[k] += 1;
                    for j in k + 1..idx.len() {
                        idx[j] = 0;
                    }
                    break;
                }
            }
        }
    }

    #[test]
    fn verif_nx_mlstring_rewrite() {
        let mut n = 0u64;
        for base in ["", " ", "  ", "\t", " \t", "   "] {
            enumerate(5, &mut |body| {
                for (crlf, hard, ind, cont) in [(false, false, 0u16, 0u16), (true, false, 1, 0), (false, false, 1, 1), (true, true, 1, 0), (false, true, 2, 0), (false, true, 0, 1)] {
                    check(body, base, crlf, hard, ind, cont, &mut n);
                }
            });
        }
        println!("NX mlstring_rewrite: {} cases", n);
        assert!(n > 100_000, "enumeration ran");
    }

    #[test]
    fn verif_nx_mlstring_lines_custom() {
        // lines_custom = the independent splitter, for every string up to 6 items followed by the closing quote
        // (precondition from its only call site: the text of a multi-line literal ends with quotes, never with a terminator)
        let mut n = 0u64;
        enumerate(6, &mut |s0| {
            let owned = format!("{}'", s0);
            let s: &str = &owned;
            let got: Vec<&str> = lines_custom(s).collect();
            let exp = split_lines(s);
            assert!(got == exp, "OB mlstring/lines: LF, CR and CRLF each end an interior line; no other character does\n input={:?} got={:?} exp={:?}", s, got, exp);
            n += 1;
        });
        println!("NX mlstring_lines_custom: {} cases", n);
        assert!(n > 100_000, "enumeration ran");
    }
    // format_multiline_strings: "returns true if and only if a token is mutated" (its own doc comment; the caller re-wraps
    // exactly the lines for which it returns true - C03), only unignored multi-line literals are touched (C07, C12)
    #[test]
    fn verif_nx_mlstring_changed_flag() {
        let rs = ReconstructionSettings::new(LineEnding::Lf, TabKind::Soft, 2, 2);
        let sf = StringFormatter { recon_settings: &rs };
        // literal texts: already at indentation 2, at 4, at 0, mis-indented, and a single-line literal
        // (the last two: indentation made of U+3000 and ASCII blanks in either order - both are blanks to the scanner)
        let lits = ["'''\n  a\n  '''", "'''\n    a\n    '''", "'''\na\n'''", "'''\n a\n  '''", "'x'", "'''\n\u{3000} a\n\u{3000} '''", "'''\n \u{3000}a\n \u{3000}'''"];
        let mut n = 0u64;
        for l1 in lits { for l2 in lits { for ign1 in [false, true] { for ign2 in [false, true] { for ind in 0..=2u16 {
            let kind = |l: &str| if l.contains('\n') { TokenType::TextLiteral(TextLiteralKind::MultiLine) } else { TokenType::TextLiteral(TextLiteralKind::SingleLine) };
            let mut toks = [
                Token::new_ref("S", 0, TokenType::Identifier),
                Token::new_ref(l1, 0, kind(l1)),
                Token::new_ref("+", 0, TokenType::Op(OperatorKind::Plus)),
                Token::new_ref(l2, 0, kind(l2)),
                Token::new_ref(";", 0, TokenType::Op(OperatorKind::Semicolon)),
            ];
            let mut ft = FormattedTokens::verif_nx_new(&mut toks, vec![
                FormattingData::verif_nx_new(false, 1, 0, 0, 0),
                FormattingData::verif_nx_new(ign1, 1, ind, 0, 0),
                FormattingData::verif_nx_new(false, 0, 0, 0, 1),
                FormattingData::verif_nx_new(ign2, 1, ind, 0, 0),
                FormattingData::verif_nx_new(false, 0, 0, 0, 0),
            ]);
            let line = LogicalLine::new(None, 0, vec![0, 1, 2, 3, 4], LogicalLineType::Assignment);
            let flag = sf.format_multiline_strings(&line, &mut ft);
            let after1 = ft.get_token(1).unwrap().0.get_content().to_string();
            let after2 = ft.get_token(3).unwrap().0.get_content().to_string();
            let mutated = after1 != l1 || after2 != l2;
            // every literal of the line is processed on its own: the result for each equals try_rewrite_string on that literal
            for (orig, after, ign) in [(l1, &after1, ign1), (l2, &after2, ign2)] {
                if orig.contains('\n') && !ign {
                    let last_line = orig.lines().last().unwrap();
                    let base = &last_line[..last_line.len() - last_line.trim_start().len()];
                    let fmt = FormattingData::verif_nx_new(false, 1, ind, 0, 0);
                    let exp = sf.try_rewrite_string(orig, &fmt, base).unwrap_or_else(|| orig.to_string());
                    assert!(*after == exp, "OB mlstring/every_literal_processed: each unignored multi-line literal of a line is re-indented, independently of the others\n lit1={:?} lit2={:?} ind={} literal={:?} got={:?} expected={:?}", l1, l2, ind, orig, after, exp);
                }
            }
            assert!(flag == mutated, "OB mlstring/changed_flag: format_multiline_strings returns true if and only if a token was mutated\n lit1={:?} lit2={:?} ign=({},{}) ind={} flag={} after1={:?} after2={:?}", l1, l2, ign1, ign2, ind, flag, after1, after2);
            assert!(!(ign1 && after1 != l1) && !(ign2 && after2 != l2), "OB mlstring/ignored_untouched: an ignored literal is never rewritten\n lit1={:?} lit2={:?}", l1, l2);
            assert!((l1.contains('\n') || after1 == l1) && (l2.contains('\n') || after2 == l2), "OB mlstring/only_multiline_literals: only multi-line literals are rewritten\n lit1={:?} lit2={:?}", l1, l2);
            assert!(ft.get_token(0).unwrap().0.get_content() == "S" && ft.get_token(2).unwrap().0.get_content() == "+", "OB mlstring/other_tokens_untouched: no other token text changes");
            n += 1;
        }}}}}
        println!("NX mlstring_changed_flag: {} cases", n);
        assert!(n == 588, "enumeration ran");
    }

}
