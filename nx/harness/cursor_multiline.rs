// NX stand-in for the MultilineContent arm of relocate_cursors (its Kani harness exhausts memory):
// for EVERY (reverse_col, newlines_after_cursor) in 0..=40 x 0..=6 - including values that do not fit the token any
// more because its text was re-indented - the projected cursor lies inside the token's text in the output.
#[cfg(verif_nx)]
mod verif_nx_cursor_ml {
    use super::*;

    #[test]
    fn verif_nx_cursor_multiline_positions() {
        let mut n = 0u64;
        let texts = ["{\n}", "  {\n a\n}", "'''\n    a\n    '''", " '''\nq\n'''", "{}", "\n{\n\n}"];
        for text in texts {
            let ws = text.len() - text.trim_start().len();
            for crlf in [false, true] {
                for (nl, ind, cont, sp) in [(0u16, 0u16, 0u16, 0u16), (0, 0, 0, 1), (1, 1, 0, 0), (2, 0, 2, 0), (1, 3, 1, 0)] {
                    for ignored in [false, true] {
                        for rc in 0..=40u16 {
                            for nla in 0..=6u16 {
                                let recon = DelphiLogicalLinesReconstructor::new(ReconstructionSettings::new(
                                    if crlf { LineEnding::Crlf } else { LineEnding::Lf }, TabKind::Soft, 2, 3));
                                let mut toks = [
                                    Token::new_ref("a", 0, TokenType::Identifier),
                                    Token::new_ref(text, ws as u32, TokenType::Comment(CommentKind::MultilineBlock)),
                                    Token::new_ref("\n", 1, TokenType::Eof),
                                ];
                                let ft = FormattedTokens::verif_nx_new(&mut toks, vec![
                                    FormattingData::verif_nx_new(false, 0, 0, 0, 0),
                                    FormattingData::verif_nx_new(ignored, nl, ind, cont, sp),
                                    FormattingData::verif_nx_new(false, 1, 0, 0, 0),
                                ]);
                                let mut cur = Cursor(0);
                                let mut tracker = CursorTrackerImpl {
                                    reconstructor: &recon,
                                    cursors: vec![InternalCursor { cursor: &mut cur, tok_idx: 1, tok_pos: TokPos::MultilineContent { reverse_col: rc as _, newlines_after_cursor: nla as _ } }],
                                };
                                tracker.relocate_cursors(&ft);
                                drop(tracker);
                                let mut out = String::new();
                                recon.reconstruct(ft, &mut out);
                                let content = &text[ws..];
                                let start = out.find(content).unwrap();
                                let c = cur.0 as usize;
                                assert!(c >= start && c <= start + content.len(), "OB cursorml/inside_token: a cursor attached inside a multi-line token lands inside that token's text\n text={:?} fmt=({},{},{},{}) ignored={} crlf={} reverse_col={} newlines_after={} got={} token=[{},{}]", text, nl, ind, cont, sp, ignored, crlf, rc, nla, c, start, start + content.len());
                                n += 1;
                            }
                        }
                    }
                }
            }
        }
        println!("NX cursor_multiline_positions: {} cases", n);
        assert!(n > 30_000, "enumeration ran");
    }
}
