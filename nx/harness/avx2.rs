// NX stand-in for `find_identifier_end_avx2` and the run-time dispatch `find_identifier_end_x86_64`
// (SIMD intrinsics + unsafe: outside both verifiers).  Contract (C13): whichever routine the CPU selects returns
// exactly what the scalar routine `find_identifier_end_generic` returns (the scalar routine is under contract in
// KX lexscan).  Enumerated: words of 0..=70 identifier characters (ASCII letters / digits / underscore, optionally
// with a non-ASCII identifier character inside) x every delimiter class x alignment 0..=33 x 3 tails x start offsets.
#[cfg(verif_nx)]
mod verif_nx_avx2 {
    use super::*;

    const DELIMS: [&str; 14] = ["", " ", ";", "\u{3000}", "\u{3001}", "\u{e9}", "\u{1F600}", "\n", "'", ".", "\u{A0}", "\u{7f}", "@", "\u{2028}"];
    const TAILS: [&str; 3] = ["", "x", "_tail0123456789_ABCDEFGHIJKLMNOPQRSTUVWXYZ_abcdefghij;"];

    #[test]
    fn verif_nx_avx2_matches_scalar() {
        let have_avx2 = is_x86_feature_detected!("avx2");
        let mut n = 0u64;
        let pat = b"aZ09_bQ7x";
        for inner in ["", "\u{e9}", "\u{3000}"] {
            for word_len in 0..=70usize {
                let mut word = String::new();
                for k in 0..word_len {
                    word.push(pat[k % pat.len()] as char);
                    if !inner.is_empty() && k == word_len / 2 {
                        word.push_str(inner);
                    }
                }
                for delim in DELIMS {
                    for align in 0..=33usize {
                        for tail in TAILS {
                            let input = format!("{}{}{}{}", " ".repeat(align), word, delim, tail);
                            for offset in [align, align + word_len.min(1), align + word_len / 2] {
                                if !input.is_char_boundary(offset) {
                                    continue;
                                }
                                let exp = find_identifier_end_generic(&input, offset);
                                let got = find_identifier_end(&input, offset);
                                assert!(got == exp, "OB avx2/dispatch_matches_scalar: the routine selected at run time agrees with the scalar routine\n input={:?} offset={} got={} scalar={}", input, offset, got, exp);
                                if have_avx2 {
                                    // SAFETY: AVX2 support was detected just above
                                    let g2 = unsafe { find_identifier_end_avx2(&input, offset) };
                                    assert!(g2 == exp, "OB avx2/avx2_matches_scalar: the AVX2 routine agrees with the scalar routine\n input={:?} offset={} avx2={} scalar={}", input, offset, g2, exp);
                                }
                                n += 1;
                            }
                        }
                    }
                }
            }
        }
        println!("NX avx2_matches_scalar: {} cases (avx2 available: {})", n, have_avx2);
        assert!(have_avx2, "this machine has no AVX2: the stand-in would be vacuous");
        assert!(n > 500_000, "enumeration ran");
    }
}
