// NX stand-in for `format_compiler_directive` (withdrawn from KX: every harness exhausts CBMC memory).
// Contract (C01/C02/C03): for every directive text `{$...}` / `(*$...*)` over the alphabet below:
//   the length is unchanged; only ASCII letters change, and only to upper case; the changed bytes lie in one run
//   that starts right after the `$` (the directive name / switch list); the opener and everything after the name
//   are untouched; a second application changes nothing.
#[cfg(verif_nx)]
mod verif_nx_directive {
    use super::*;

    const ALPHA: [&str; 11] = ["i", "F", "z", "1", "+", "-", ",", " ", "_", "}", "\u{e9}"];

    fn check(text: &str, n: &mut u64) {
        let mut tok = Token::new_ref(text, 0, TokenType::CompilerDirective);
        format_compiler_directive(&mut tok);
        let got = tok.get_content().to_string();
        let p = if text.starts_with("{$") { 2 } else { 3 };
        let (a, b) = (text.as_bytes(), got.as_bytes());
        assert!(a.len() == b.len(), "OB directive/same_length: normalising a directive keeps its length\n input={:?} got={:?}", text, got);
        let mut last_changed: Option<usize> = None;
        for i in 0..a.len() {
            if a[i] != b[i] {
                assert!(a[i].is_ascii_lowercase() && b[i] == a[i].to_ascii_uppercase(), "OB directive/only_case: only ASCII letters change, to upper case\n input={:?} got={:?}", text, got);
                assert!(i >= p, "OB directive/opener_kept: the opener `{{$` / `(*$` is untouched\n input={:?} got={:?}", text, got);
                last_changed = Some(i);
            }
        }
        if let Some(l) = last_changed {
            // every letter between the `$` and the last changed byte is upper case afterwards: the span is one prefix run
            for i in p..=l {
                assert!(!b[i].is_ascii_lowercase(), "OB directive/name_span: the upper-cased bytes form one run starting at the directive name\n input={:?} got={:?}", text, got);
            }
        }
        let mut tok2 = Token::new_ref(&got, 0, TokenType::CompilerDirective);
        format_compiler_directive(&mut tok2);
        assert!(tok2.get_content() == got, "OB directive/fixpoint: normalising a normalised directive changes nothing\n input={:?} first={:?} second={:?}", text, got, tok2.get_content());
        *n += 1;
    }

    #[test]
    fn verif_nx_directive_normalise() {
        let mut n = 0u64;
        let mut idx: Vec<usize> = Vec::new();
        loop {
            let body: String = idx.iter().map(|&i| ALPHA[i]).collect();
            check(&format!("{{${}}}", body), &mut n);
            check(&format!("(*${}*)", body), &mut n);
            let mut k = idx.len();
            loop {
                if k == 0 {
                    if idx.len() == 5 {
                        println!("NX directive_normalise: {} cases", n);
                        assert!(n > 300_000, "enumeration ran");
                        return;
                    }
                    idx = vec![0; idx.len() + 1];
                    break;
                }
                k -= 1;
                if idx[k] + 1 < ALPHA.len() {
                    idx[k] += 1;
                    for j in k + 1..idx.len() {
                        idx[j] = 0;
                    }
                    break;
                }
            }
        }
    }
}
