// NX stand-in for the attachment step `process_cursors` (withdrawn from KX: did not terminate) together with
// `relocate_cursors`: when formatting leaves the text unchanged, tracking a cursor is the identity.
//
// Contract (C15): for a token vector whose reconstruction equals the input text exactly, and EVERY cursor c:
//     relocate(process(c)) == min(c, len(text))          (cursors beyond the end map to the end)
// and the reconstructed text does not depend on whether cursors are tracked.
// Two ways of getting "unchanged text" are enumerated: all tokens ignored (verbatim emission), and canonical
// whitespace (LF* SPACE*) with formatting data taken from the original whitespace.
#[cfg(verif_nx)]
mod verif_nx_cursor {
    use super::*;
    use crate::defaults::lexer::DelphiLexer;
    use crate::formatter::TokenMarker;
    use crate::traits::Lexer;

    // (multi-line tokens with LF, CRLF and lone-CR breaks inside: a cursor in an unchanged token keeps its offset whatever the break is)
    const PIECES: [&str; 14] = ["a", "bc", ";", ":=", "{x}", "{\n}", "'''\nq\n'''", "//c\n", "'s'", "\u{e9}", "(", "1", "{\r\nx\r\n y}", "{\rx\n}"];
    const CANON_WS: [&str; 6] = ["", " ", "  ", "\n", "\n\n", "\n "];
    const ANY_WS: [&str; 9] = ["", " ", "  ", "\n", "\n\n", "\n ", "\t", " \n\t", "\r\n"];

    fn check(text: &str, all_ignored: bool, crlf: bool, n: &mut u64) {
        let raw = DelphiLexer {}.lex(text);
        let recon = DelphiLogicalLinesReconstructor::new(ReconstructionSettings::new(
            if crlf { LineEnding::Crlf } else { LineEnding::Lf }, TabKind::Soft, 2, 2));
        let max = text.len() as u32 + 2;
        let mut cursors: Vec<Cursor> = (0..=max).map(Cursor).collect();
        // cursors inside a multi-byte character are outside the property's domain
        let valid: Vec<bool> = (0..=max).map(|c| (c as usize) > text.len() || text.is_char_boundary(c as usize)).collect();
        let mut marker = TokenMarker::default();
        if all_ignored {
            for i in 0..raw.len() {
                marker.mark(i);
            }
        }
        {
            let mut tracker = recon.process_cursors(&mut cursors, &raw);
            let mut toks: Vec<Token> = DelphiLexer {}.lex(text).into_iter().map(Token::from).collect();
            let ft = FormattedTokens::new_from_tokens(&mut toks, &marker);
            tracker.relocate_cursors(&ft);
            drop(tracker);
            let mut out = String::new();
            recon.reconstruct(ft, &mut out);
            if out != text {
                // not an "unchanged text" case (e.g. the last-resort line break after a comment): outside this contract
                return;
            }
        }
        // the order in which cursors are listed does not matter: track the same cursors in reversed and interleaved order
        for order in 0..2 {
            let perm: Vec<u32> = if order == 0 {
                (0..=max).rev().collect()
            } else {
                (0..=max).map(|i| if i % 2 == 0 { i / 2 } else { max - i / 2 }).collect()
            };
            let mut cs2: Vec<Cursor> = perm.iter().map(|c| Cursor(*c)).collect();
            {
                let mut tracker = recon.process_cursors(&mut cs2, &raw);
                let mut toks: Vec<Token> = DelphiLexer {}.lex(text).into_iter().map(Token::from).collect();
                let ft = FormattedTokens::new_from_tokens(&mut toks, &marker);
                tracker.relocate_cursors(&ft);
            }
            for (k, c) in cs2.iter().enumerate() {
                let orig = perm[k] as usize;
                assert!(c.0 == cursors[orig].0, "OB cursorrt/order_independent: each cursor is tracked independently of the others and of their order\n text={:?} all_ignored={} cursor={} alone_or_ascending={} in_other_order={}", text, all_ignored, orig, cursors[orig].0, c.0);
            }
        }
        // positions inside or at either end of a token's text (the property pins these down); elsewhere only "within the output"
        let mut in_token = vec![false; max as usize + 1];
        let mut pos = 0usize;
        for t in &raw {
            let start = pos + t.get_leading_whitespace().len();
            let end = start + t.get_content().len();
            if t.get_token_type() != RawTokenType::Eof {
                for p in start..=end {
                    in_token[p] = true;
                }
            }
            pos = end;
        }
        for p in text.len()..=max as usize {
            in_token[p] = true; // at or beyond the end of the input
        }
        for (i, c) in cursors.iter().enumerate() {
            if !valid[i] {
                continue;
            }
            assert!(c.0 as usize <= text.len(), "OB cursorrt/within_output: every reported cursor lies within the output\n text={:?} all_ignored={} cursor={} got={}", text, all_ignored, i, c.0);
            assert!(text.is_char_boundary(c.0 as usize), "OB cursorrt/on_char_boundary: every reported cursor lies on a character boundary\n text={:?} cursor={} got={}", text, i, c.0);
            if !in_token[i] {
                continue;
            }
            let exp = (i as u32).min(text.len() as u32);
            assert!(c.0 == exp, "OB cursorrt/identity_on_unchanged_text: a cursor in unchanged text keeps its offset; beyond the end maps to the end\n text={:?} all_ignored={} crlf={} cursor={} got={} expected={}", text, all_ignored, crlf, i, c.0, exp);
            *n += 1;
        }
    }

    #[test]
    fn verif_nx_cursor_roundtrip_ignored() {
        let mut n = 0u64;
        for a in PIECES { for w1 in ANY_WS { for b in PIECES { for w2 in ANY_WS { for c in ["", "x", "{\n}"] { for w3 in ["", "\n", " "] {
            let text = format!("{}{}{}{}{}{}", a, w1, b, w2, c, w3);
            check(&text, true, false, &mut n);
        }}}}}}
        println!("NX cursor_roundtrip_ignored: {} cases", n);
        assert!(n > 100_000, "enumeration ran");
    }

    #[test]
    fn verif_nx_cursor_roundtrip_formatted() {
        let mut n = 0u64;
        for a in PIECES { for w1 in CANON_WS { for b in PIECES { for w2 in CANON_WS { for c in ["", "x", "{\n}"] { for w3 in ["", "\n"] { for crlf in [false] {
            let text = format!("{}{}{}{}{}{}", a, w1, b, w2, c, w3);
            check(&text, false, crlf, &mut n);
        }}}}}}}
        println!("NX cursor_roundtrip_formatted: {} cases", n);
        assert!(n > 50_000, "enumeration ran");
    }
}
