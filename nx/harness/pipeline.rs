// NX stand-in for the composition that no contract reaches (parser + line-wrapping search inside Formatter::format):
// the end-to-end clauses of C01 / C03 / C04 / C07 / C08 / C09 / C10 / C15 executed natively on the real pipeline
// (make_formatter(config).format(input)) over exhaustively enumerated small domains, each call under a watchdog.
#[cfg(verif_nx)]
mod verif_nx_pipeline {
    use super::*;

    const ALPHA: [&str; 23] = [
        "begin ", "end ", "; ", "a ", ":= ", "if ", "then ", "else ", "( ", ") ", "{$ifdef X} ", "{$else} ", "{$endif} ", "{$define T} ",
        "//c\n", "procedure ", "var ", ": ", "case ", "of ", "asm ", "class ", ", ",
    ];

    fn config(use_tabs: bool, tab_width: u8, ci: u8, crlf: bool, wrap: u32, always_wrap: bool) -> FormattingConfig {
        FormattingConfig {
            wrap_column: wrap,
            begin_style: if always_wrap { BeginStyle::Always_Wrap } else { BeginStyle::Auto },
            format_multiline_strings: true,
            encoding: InternalEncoding::Native,
            use_tabs,
            tab_width,
            continuation_indents: ci,
            line_ending: if crlf { LineEnding::Crlf } else { LineEnding::Lf },
        }
    }

    trait CfgExt {
        fn line_ending_is_crlf(&self) -> bool;
    }
    impl CfgExt for FormattingConfig {
        fn line_ending_is_crlf(&self) -> bool {
            matches!(self.line_ending, LineEnding::Crlf)
        }
    }

    fn blank(c: char) -> bool {
        c <= '\u{20}' || c == '\u{3000}'
    }
    fn nb(s: &str) -> String {
        s.chars().filter(|c| !blank(*c)).map(|c| c.to_ascii_lowercase()).collect()
    }

    // format under a watchdog; the formatter is rebuilt in the worker so nothing is shared
    fn fmt(cfg: &'static FormattingConfig, input: &str, cursors: Vec<u32>) -> (String, Vec<u32>) {
        let owned = input.to_string();
        let (tx, rx) = std::sync::mpsc::channel();
        std::thread::spawn(move || {
            let r = std::panic::catch_unwind(|| {
                let f = make_formatter(cfg);
                let mut cs: Vec<Cursor> = cursors.iter().map(|c| Cursor(*c)).collect();
                let out = f.format(&owned, FileOptions::new().with_cursors(&mut cs));
                (out, cs.iter().map(|c| c.0).collect::<Vec<u32>>())
            });
            let _ = tx.send(r.ok());
        });
        match rx.recv_timeout(std::time::Duration::from_secs(10)) {
            Ok(Some(x)) => x,
            Ok(None) => panic!("OB pipeline/returns: formatting never aborts with an internal error\n input={:?}", input),
            Err(_) => panic!("OB pipeline/terminates: formatting never loops forever (no result within 10 s)\n input={:?}", input),
        }
    }

    fn leak(c: FormattingConfig) -> &'static FormattingConfig {
        Box::leak(Box::new(c))
    }

    fn for_each_soup(max_len: usize, f: &mut dyn FnMut(&str)) {
        let mut idx: Vec<usize> = Vec::new();
        loop {
            let s: String = idx.iter().map(|&i| ALPHA[i]).collect();
            f(&s);
            let mut k = idx.len();
            loop {
                if k == 0 {
                    if idx.len() == max_len {
                        return;
                    }
                    idx = vec![0; idx.len() + 1];
                    break;
                }
                k -= 1;
                if idx[k] + 1 < ALPHA.len() {
                    idx[k] += 1;
                    for j in k + 1..idx.len() {
                        idx[j] = 0;
                    }
                    break;
                }
            }
        }
    }

    // the same over a wider alphabet, length <= 2 (C04: no abort, no endless loop; C01)
    #[test]
    fn verif_nx_pipeline_soup_wide() {
        let wide = ["^ ", "< ", "> ", "= ", ". ", "[ ", "] ", "'s' ", "1 ", "@ ", "property ", "type ", "record ", "interface ", "function ", "try ", "except ",
                    "for ", "do ", "{$if X} ", "uses ", "const ", "begin ", "end ", "; ", "a ", ":= ", "if ", "then ", "( ", ") ", "{$ifdef X} ", "{$endif} ", "//c\n",
                    "procedure ", "var ", ": ", "case ", "of ", "asm ", "class ", ", ", "'''\nx\n''' ", "{ c } ", "#13 ", "$FF ", "&begin ", "\u{e9} "];
        let cfg = leak(config(true, 4, 3, true, 20, true));
        let mut n = 0u64;
        for a in wide { for b in wide { for c in ["", "; ", "end "] {
            let s = format!("{a}{b}{c}");
            let (out, _) = fmt(cfg, &s, vec![0, 1, s.len() as u32, s.len() as u32 + 5]);
            assert!(nb(&out) == nb(&s), "OB pipeline/non_blank_preserved: the output has the same non-blank characters in the same order (ASCII case aside)\n input={:?}\n output={:?}", s, out);
            n += 1;
        }}}
        println!("NX pipeline_soup_wide: {} cases", n);
        assert!(n > 6_000, "enumeration ran");
    }

    // thorough tier only: every soup of 4 items (C04 + C01), 8 parallel shards
    #[test]
    fn verif_nx_pipeline_soup_len4_thorough() {
        if std::env::var("VERIF_NX_THOROUGH").is_err() {
            println!("NX pipeline_soup_len4_thorough: 0 cases (quick tier: skipped)");
            return;
        }
        let handles: Vec<_> = (0..8usize).map(|k| std::thread::spawn(move || {
            let cfg = leak(config(false, 2, 2, false, 30, false));
            let mut n = 0u64;
            let mut i = 0usize;
            for_each_soup(4, &mut |s| {
                i += 1;
                if i % 8 != k {
                    return;
                }
                let (out, _) = fmt(cfg, s, vec![0, s.len() as u32 / 2, s.len() as u32 + 1]);
                assert!(nb(&out) == nb(s), "OB pipeline/non_blank_preserved: the output has the same non-blank characters in the same order (ASCII case aside)\n input={:?}\n output={:?}", s, out);
                n += 1;
            });
            n
        })).collect();
        let mut n = 0u64;
        for h in handles {
            match h.join() {
                Ok(c) => n += c,
                Err(e) => std::panic::resume_unwind(e),
            }
        }
        println!("NX pipeline_soup_len4_thorough: {} cases", n);
        assert!(n > 200_000, "enumeration ran");
    }

    // C04 + C01 + C15 on arbitrary token soup
    #[test]
    fn verif_nx_pipeline_soup() {
        let cfg = leak(config(false, 2, 2, false, 30, false));
        let mut n = 0u64;
        for_each_soup(3, &mut |s| {
            let cursors: Vec<u32> = (0..=s.len() as u32 + 1).collect();
            let (out, cs) = fmt(cfg, s, cursors);
            assert!(nb(&out) == nb(s), "OB pipeline/non_blank_preserved: the output has the same non-blank characters in the same order (ASCII case aside)\n input={:?}\n output={:?}", s, out);
            let (out2, _) = fmt(cfg, s, Vec::new());
            assert!(out2 == out, "OB pipeline/tracking_does_not_change_text: requesting cursor tracking never changes the formatted text\n input={:?}", s);
            for (i, c) in cs.iter().enumerate() {
                assert!((*c as usize) <= out.len() && out.is_char_boundary(*c as usize), "OB pipeline/cursor_within_output: every reported cursor lies within the output on a character boundary\n input={:?} cursor={} got={} output_len={}", s, i, c, out.len());
            }
            assert!(*cs.last().unwrap() as usize == out.len(), "OB pipeline/cursor_past_end: a cursor beyond the end of the input maps to the end of the output\n input={:?}", s);
            n += 1;
        });
        println!("NX pipeline_soup: {} cases", n);
        assert!(n > 10_000, "enumeration ran");
    }

    fn programs(f: &mut dyn FnMut(&str)) {
        let decls = ["", "const A = 1;", "var B: Integer;", "type T = class end;", "procedure P; begin end;", "{$ifdef X} var C: Byte; {$endif}",
                     "function F(A: Integer): Integer; begin Result := A; end;", "// c\n", "type R = record case Byte of 0: (A: Byte); end;"];
        let stmts = ["", "A := 1;", "if A then B else C;", "for I := 0 to 1 do begin end;", "case A of 1: B; else C; end;", "try A; finally B; end;",
                     "{$ifdef X} A; {$else} B; {$endif}", "with A do B;", "repeat A until B;", "A := procedure begin B; end;",
                     "Foo(Bar, Baz + 1, 'lit', Qux.Quux(1, 2, 3), AVeryLongIdentifierName, AnotherVeryLongIdentifierName);",
                     "L := TList<Integer>.Create; if (A < B) and (C > D) then E := F<G>(H);", "P^.Q := @R; S := -T + (-U) - V * W[X]^;",
                     "Foo(AAAA or BBBB {$IFDEF EXT} or CCCC() {$ELSE} {$ENDIF}, DDDD);"];
        for d1 in decls { for d2 in decls { for s1 in stmts { for s2 in stmts {
            f(&format!("unit U;\ninterface\n{d1}\nimplementation\n{d2}\ninitialization\n{s1}\n{s2}\nend."));
            f(&format!("program P;\n{d1}\n{d2}\nbegin\n{s1} {s2}\nend."));
        }}}}
    }

    // C03 (idempotence), C08 (canonical whitespace), C09 (line endings), C10 (tabs vs spaces) on well-formed programs
    #[test]
    fn verif_nx_pipeline_wellformed() {
        let handles: Vec<_> = (0..4usize).map(|k| std::thread::spawn(move || wellformed_shard(k, 4))).collect();
        let mut n = 0u64;
        for h in handles {
            match h.join() {
                Ok(c) => n += c,
                Err(e) => std::panic::resume_unwind(e),
            }
        }
        println!("NX pipeline_wellformed: {} cases", n);
        assert!(n > 15_000, "enumeration ran");
    }

    fn wellformed_shard(shard: usize, shards: usize) -> u64 {
        let lf = leak(config(false, 2, 2, false, 40, false));
        let crlf = leak(config(false, 2, 2, true, 40, false));
        let wide_sp = leak(config(false, 3, 2, false, 100_000, false));
        let wide_tab = leak(config(true, 3, 2, false, 100_000, false));
        let wide_sp2 = leak(config(false, 2, 2, false, 100_000, false));
        let mut n = 0u64;
        let mut pi = 0usize;
        programs(&mut |p| {
            pi += 1;
            if pi % shards != shard {
                return;
            }
            let (out, _) = fmt(lf, p, Vec::new());
            let (again, _) = fmt(lf, &out, Vec::new());
            assert!(again == out, "OB pipeline/idempotent: formatting the formatter's own output changes nothing\n input={:?}\n first={:?}\n second={:?}", p, out, again);
            assert!(nb(&out) == nb(p), "OB pipeline/non_blank_preserved: the output has the same non-blank characters in the same order (ASCII case aside)\n input={:?}\n output={:?}", p, out);
            // C08
            assert!(out.ends_with('\n') && !out.ends_with("\n\n"), "OB pipeline/one_final_terminator: the output of well-formed input ends with exactly one line terminator\n input={:?} output={:?}", p, out);
            assert!(!out.starts_with('\n'), "OB pipeline/no_leading_blank_line: no blank line at the start of the file\n input={:?}", p);
            assert!(!out.contains("\n\n\n"), "OB pipeline/one_blank_line_at_most: never two consecutive blank lines\n input={:?} output={:?}", p, out);
            for line in out.split('\n') {
                assert!(!line.ends_with(' ') && !line.ends_with('\t'), "OB pipeline/no_trailing_blanks: no output line ends in blanks\n input={:?} line={:?}", p, line);
                let indent = line.len() - line.trim_start_matches(' ').len();
                assert!(indent % 2 == 0 || line.trim_start().is_empty(), "OB pipeline/indent_unit: indentation is a whole number of indentation units\n input={:?} line={:?}", p, line);
                assert!(!line.contains('\t'), "OB pipeline/no_tabs_without_use_tabs: no tab is emitted when use_tabs is off\n input={:?} line={:?}", p, line);
            }
            // C02: the output re-scans to the same tokens (kinds up to the layout-dependent comment sub-kind; text up to the documented normalisations)
            {
                let a = DelphiLexer {}.lex(p);
                let b = DelphiLexer {}.lex(&out);
                assert!(a.len() == b.len(), "OB pipeline/rescans_to_same_tokens: scanning the output yields the same number of tokens\n input={:?}\n output={:?}", p, out);
                for (x, y) in a.iter().zip(b.iter()) {
                    let same_kind = match (x.get_token_type(), y.get_token_type()) {
                        (RawTokenType::Comment(_), RawTokenType::Comment(_)) => true,
                        (k1, k2) => k1 == k2,
                    };
                    assert!(same_kind && nb(x.get_content()) == nb(y.get_content()), "OB pipeline/rescans_to_same_tokens: scanning the output yields the same token kinds and text\n input={:?}\n output={:?}\n token in={:?} out={:?}", p, out, x.get_content(), y.get_content());
                }
            }
            // C08 / C06: runs of blank lines in the input collapse to one blank line and change nothing else
            {
                let p2 = p.replace('\n', "\n\n");
                let p4 = p.replace('\n', "\n\n\n\n");
                let (o2, _) = fmt(lf, &p2, Vec::new());
                let (o4, _) = fmt(lf, &p4, Vec::new());
                assert!(!o4.contains("\n\n\n") && !o4.starts_with('\n'), "OB pipeline/one_blank_line_at_most: never two consecutive blank lines\n input={:?} output={:?}", p4, o4);
                assert!(o2 == o4, "OB pipeline/blank_line_groups_only: only the grouping by blank lines matters, not their number\n input={:?}\n two={:?}\n four={:?}", p, o2, o4);
            }
            // C11: the limit is a limit, not a style switch
            {
                let (w, _) = fmt(wide_sp2, p, Vec::new());
                if w.split('\n').all(|l| l.len() <= 40) {
                    assert!(w == out, "OB pipeline/limit_not_style: a result for a wider limit that already fits the narrower limit is also the result for the narrower limit\n input={:?}\n wide={:?}\n narrow={:?}", p, w, out);
                }
                assert!(w.split('\n').count() <= out.split('\n').count(), "OB pipeline/wider_never_more_lines: widening wrap_column never increases the number of lines\n input={:?}", p);
            }
            // C09
            let (out_crlf, _) = fmt(crlf, p, Vec::new());
            assert!(out_crlf == out.replace('\n', "\r\n"), "OB pipeline/crlf_is_lf_substituted: line_ending=crlf gives the lf result with each terminator substituted\n input={:?}", p);
            let (out_from_crlf, _) = fmt(lf, &p.replace('\n', "\r\n"), Vec::new());
            assert!(out_from_crlf == out, "OB pipeline/input_endings_do_not_matter: CRLF input gives the same output as LF input\n input={:?}\n lf={:?}\n crlf={:?}", p, out, out_from_crlf);
            // C10
            let (sp, _) = fmt(wide_sp, p, Vec::new());
            let (tb, _) = fmt(wide_tab, p, Vec::new());
            let tb_as_sp: String = tb.split('\n').map(|l| {
                let t = l.len() - l.trim_start_matches('\t').len();
                format!("{}{}", "   ".repeat(t), &l[t..])
            }).collect::<Vec<_>>().join("\n");
            assert!(tb_as_sp == sp, "OB pipeline/tabs_render_as_spaces: replacing each leading tab by tab_width spaces gives the use_tabs=false result\n input={:?}\n tabs={:?}\n spaces={:?}", p, tb, sp);
            n += 1;
        });
        n
    }

    // C11 on statements long enough to wrap, incl. multi-line strings with code after the closing quotes, under lf and crlf
    #[test]
    fn verif_nx_pipeline_wrap_limit() {
        let stmts = [
            "Foo(Bar, Baz + 1, 'lit', Qux.Quux(1, 2, 3), AVeryLongIdentifierName, AnotherVeryLongIdentifierName);",
            "S := '''\n    abc\n    '''.Replace(AAA, BBB);",
            "Result := Alpha + Beta * (Gamma - Delta) + Epsilon.Zeta(Eta, Theta) + Iota;",
            "if (A = B) and (C <> D) or (E < F) then G := H + I + J + K;",
            "X := '''\n  q\n  ''' + Y + Z.W(1, 2);",
            "x := '''\n                                                                                                    text\n                                                                                                    '''.Replace(aaaaaaa, bbbbbbbbb) + ccccccc mod ddddddd;",
            // text that a later rule changes (comment normalisation, keyword case) sitting on the wrap boundary
            "Foo(aaaaaaaa, bbbbbbbbb, ccccccc); //c",
            "Foo(aaaaaaaa, bbbbbbbbb); // cccc           ",
            "IF Aaaaaaa THEN Bbbbbbbbbb(Cccccccc, Dddddddd) ELSE Eeeeeeee; ///x",
        ];
        let mut n = 0u64;
        let mut idem_fail: Option<String> = None;
        for crlf in [false, true] {
            let wide = leak(config(false, 2, 2, crlf, 200, false));
            for s1 in stmts { for s2 in stmts {
                let p = format!("procedure P;\nbegin\n{s1}\n{s2}\nend;");
                let (w, _) = fmt(wide, &p, Vec::new());
                let nl = if crlf { "\r\n" } else { "\n" };
                let mut prev_lines = usize::MAX;
                for limit in (16..=100u32).step_by(if s1.contains("//") || s2.contains("//") { 1 } else { 3 }) {
                    let narrow = leak(config(false, 2, 2, crlf, limit, false));
                    let (o, _) = fmt(narrow, &p, Vec::new());
                    if w.split(nl).all(|l| l.len() as u32 <= limit) {
                        assert!(o == w, "OB pipeline/limit_not_style: a result for a wider limit that already fits the narrower limit is also the result for the narrower limit\n input={:?} limit={} crlf={}\n wide={:?}\n narrow={:?}", p, limit, crlf, w, o);
                    }
                    // C03 / C08 on results that went through the second wrapping pass (re-indented strings)
                    let (again, _) = fmt(narrow, &o, Vec::new());
                    if again != o && idem_fail.is_none() {
                        // reported after the enumeration, so that a clause of C11 that fails anywhere is reached first
                        idem_fail = Some(format!("OB pipeline/idempotent: formatting the formatter's own output changes nothing\n input={:?} limit={} crlf={}\n first={:?}\n second={:?}", p, limit, crlf, o, again));
                    }
                    let mut in_string = false;
                    for line in o.split(nl) {
                        let quotes = line.matches("'''").count();
                        if !in_string && quotes == 0 {
                            let ind = line.len() - line.trim_start_matches(' ').len();
                            assert!(ind % 2 == 0, "OB pipeline/indent_unit: indentation is a whole number of indentation units\n input={:?} limit={} line={:?}\n output={:?}", p, limit, line, o);
                        }
                        if quotes % 2 == 1 {
                            in_string = !in_string;
                        }
                    }
                    let lines = o.split(nl).count();
                    assert!(lines <= prev_lines, "OB pipeline/wider_never_more_lines: widening wrap_column never increases the number of lines\n input={:?} limit={} crlf={} lines={} previous={}", p, limit, crlf, lines, prev_lines);
                    prev_lines = lines;
                    n += 1;
                }
            }}
        }
        println!("NX pipeline_wrap_limit: {} cases", n);
        if let Some(m) = idem_fail {
            panic!("{}", m);
        }
        assert!(n > 1_000, "enumeration ran");
    }

    // C11 first clause on lines that go through the SECOND wrapping pass: a multi-line string whose body is indented differently
    // from where the formatter puts it is re-indented after the first pass and its logical line is wrapped again.  Every failing
    // (input, limit) is collected and reported together, so that a recorded finding for one input cannot hide another.
    #[test]
    fn verif_nx_pipeline_wrap_limit_reflow() {
        let mut texts: Vec<String> = Vec::new();
        for ind in [0usize, 6, 10, 14, 22, 40] {
            for args in ["aaaaaaaa, b", "aa, b", "aaaaaaaaaaaa, bbbbbbbbb, cc"] {
                let sp = " ".repeat(ind);
                let lit = format!("'''\n{sp}a\n{sp}'''.format({args});");
                texts.push(format!("procedure P;\nbegin\n  B := {lit}\n  Foo;\nend;"));
                texts.push(format!("procedure P;\nbegin\n  A := procedure\n    begin\n      B := {lit}\n      Foo;\n    end;\nend;"));
                texts.push(format!("procedure P;\nbegin\n  if C then\n    B := {lit}\n  Foo(procedure begin B := {lit} end);\nend;"));
                texts.push(format!("procedure P;\nbegin\n  A := procedure\n    begin\n      C := procedure\n        begin\n          B := {lit}\n        end;\n    end;\nend;"));
            }
        }
        let wide = leak(config(false, 2, 2, false, 200, false));
        let mut n = 0u64;
        let mut agg: std::collections::BTreeMap<(&str, String), Vec<u32>> = std::collections::BTreeMap::new();
        for p in &texts {
            let (w, _) = fmt(wide, p, Vec::new());
            let mut prev_lines = usize::MAX;
            for limit in 12..=90u32 {
                let narrow = leak(config(false, 2, 2, false, limit, false));
                let (o, _) = fmt(narrow, p, Vec::new());
                if w.split('\n').all(|l| l.len() as u32 <= limit) && o != w {
                    agg.entry(("fits_but_differs", p.clone())).or_insert_with(Vec::new).push(limit);
                }
                let lines = o.split('\n').count();
                if lines > prev_lines {
                    agg.entry(("wider_more_lines", p.clone())).or_insert_with(Vec::new).push(limit);
                }
                prev_lines = lines;
                n += 1;
            }
        }
        println!("NX pipeline_wrap_limit_reflow: {} cases", n);
        assert!(n > 5_000, "enumeration ran");
        // one line per failing input (all its limits together), so that the list stays readable and complete
        let failing: Vec<String> = agg.iter().map(|((what, p), limits)| format!("case={} limits={:?} input={:?}", what, limits, p)).collect();
        assert!(failing.is_empty(), "OB pipeline/limit_not_style_after_reflow: a result for a wider limit that already fits the narrower limit is also the result for the narrower limit, and widening never adds lines - also for lines wrapped a second time after a multi-line string was re-indented\n failing cases ({}):\n{}", failing.len(), failing.join("\n"));
    }

    // C15 on inputs the enumerations above do not reach: blanks longer than one byte (U+3000) that are reproduced verbatim in
    // front of an ignored token while the text before them changes length, and multi-line tokens with very long lines / very
    // many lines (positions are kept as byte and line counts).
    #[test]
    fn verif_nx_pipeline_cursor_special() {
        let cfg = leak(config(false, 2, 2, false, 120, false));
        let mut n = 0u64;
        for prefix in ["a:=b;", "a  :=  b;", "a := b;", "a:=b  ;", ""] {
            for ws in ["\u{3000}", "\u{3000}\u{3000}", " \u{3000}", "\u{3000} ", " \u{3000} \u{3000}", "\u{3000}\t\u{3000}"] {
                for opener in [" {pasfmt off}", "\n{pasfmt off}", " // pasfmt off\n"] {
                    let s = format!("{prefix}{opener}{ws}x  :=  1;{ws}y;\n");
                    let cursors: Vec<u32> = (0..=s.len() as u32 + 1).filter(|&c| c as usize > s.len() || s.is_char_boundary(c as usize)).collect();
                    let (out, cs) = fmt(cfg, &s, cursors.clone());
                    for (i, c) in cs.iter().enumerate() {
                        assert!((*c as usize) <= out.len() && out.is_char_boundary(*c as usize), "OB pipeline/cursor_within_output: every reported cursor lies within the output on a character boundary\n input={:?} cursor={} got={} output={:?}", s, cursors[i], c, out);
                        n += 1;
                    }
                }
            }
        }
        // already formatted texts (output == input): every cursor keeps its offset
        let long_line = "x".repeat(70_000);
        let many_lines = "x\n".repeat(70_000);
        let texts = [
            format!("{{\n{long_line}\n}}\na := 1;\n"),
            format!("{{\n{many_lines}}}\na := 1;\n"),
            format!("a :=\n    '''\n    {long_line}\n    ''';\n"),
            format!("a :=\n    '''\n{}    ''';\n", "    x\n".repeat(70_000)),
        ];
        for t in &texts {
            let cursors: Vec<u32> = vec![0, 2, 3, 9, 17, 18, 70_001, 70_010, 140_000, t.len() as u32 - 3, t.len() as u32];
            let cursors: Vec<u32> = cursors.into_iter().filter(|&c| (c as usize) <= t.len()).collect();
            let (out, cs) = fmt(cfg, t, cursors.clone());
            assert!(&out == t, "NX self-check: the text is already formatted (first 60 bytes of the output: {:?})", &out[..60.min(out.len())]);
            for (i, c) in cs.iter().enumerate() {
                assert!(*c == cursors[i], "OB pipeline/cursor_same_offset_unchanged_token: a cursor inside or at the end of a token whose text is unchanged keeps its offset inside that token\n input: {} bytes starting {:?}\n cursor={} got={}", t.len(), &t[..24], cursors[i], c);
                n += 1;
            }
        }
        // multi-line tokens with non-ASCII text: positions inside them are byte counts, not character counts
        for t in ["a := 1;\n{ note:\n  gr\u{f6}\u{df}e x\n}\nb := 2;\n", "a :=\n    '''\n    \u{4e2d}\u{6587} gr\u{f6}\u{df}e\n    x\u{e9}\n    ''';\n", "{\u{e9}\n\u{e9}\u{e9}}\n"] {
            let cursors: Vec<u32> = (0..=t.len() as u32).filter(|&c| t.is_char_boundary(c as usize)).collect();
            let (out, cs) = fmt(cfg, t, cursors.clone());
            assert!(out == t, "NX self-check: the text is already formatted: {:?} -> {:?}", t, out);
            for (i, c) in cs.iter().enumerate() {
                // a cursor in the blanks between tokens may move within them; inside or at the end of a token it stays
                let in_blank = (cursors[i] as usize) < t.len() && t[cursors[i] as usize..].starts_with(|ch: char| ch == ' ' || ch == '\n') && (cursors[i] == 0 || t[..cursors[i] as usize].ends_with(|ch: char| ch == ' ' || ch == '\n'));
                if !in_blank {
                    assert!(*c == cursors[i], "OB pipeline/cursor_same_offset_unchanged_token: a cursor inside or at the end of a token whose text is unchanged keeps its offset inside that token\n input={:?}\n cursor={} got={}", t, cursors[i], c);
                }
                assert!((*c as usize) <= out.len() && out.is_char_boundary(*c as usize), "OB pipeline/cursor_within_output: every reported cursor lies within the output on a character boundary\n input={:?} cursor={} got={}", t, cursors[i], c);
                n += 1;
            }
        }
        println!("NX pipeline_cursor_special: {} cases", n);
        assert!(n > 1_500, "enumeration ran");
    }

    // C03 on the same family: formatting the result again changes nothing.  All failing inputs are collected (see above).
    #[test]
    fn verif_nx_pipeline_reflow_idempotent() {
        let mut texts: Vec<String> = Vec::new();
        for ind in [0usize, 6, 10, 14, 22, 34, 40] {
            for args in ["aaaaaaaa, b", "aa, b", "aaaaaaa, bbbbbbb, ccccccc"] {
                let sp = " ".repeat(ind);
                let lit = format!("'''\n{sp}text\n{sp}'''.Replace({args});");
                texts.push(format!("procedure P;\nbegin\n  B := {lit}\n  Foo;\nend;"));
                texts.push(format!("procedure P;\nbegin\n  if A then\n    X := {lit}\nend;"));
                texts.push(format!("procedure P;\nbegin\n  A := procedure\n    begin\n      B := {lit}\n      Foo;\n    end;\nend;"));
            }
        }
        // a literal that belongs to two logical lines (one per conditional-compilation branch; both branches well-formed)
        texts.push("procedure Foo;\nbegin\n{$ifdef A}\n  X := Foo(\n{$else}\n  if Y then Xyzzzzzzzz := Bazzzzzzzzzzz(\n{$endif}\n  '''\na\n''');\nend;\n".to_string());
        let mut n = 0u64;
        let mut agg: std::collections::BTreeMap<String, Vec<u32>> = std::collections::BTreeMap::new();
        for p in &texts {
            for limit in (20..=80u32).chain([120]) {
                let cfg = leak(config(false, 2, 2, false, limit, false));
                let (o, _) = fmt(cfg, p, Vec::new());
                let (again, _) = fmt(cfg, &o, Vec::new());
                if again != o {
                    agg.entry(p.clone()).or_insert_with(Vec::new).push(limit);
                }
                n += 1;
            }
        }
        println!("NX pipeline_reflow_idempotent: {} cases", n);
        assert!(n > 3_000, "enumeration ran");
        let failing: Vec<String> = agg.iter().map(|(p, limits)| format!("case=not_idempotent limits={:?} input={:?}", limits, p)).collect();
        assert!(failing.is_empty(), "OB pipeline/idempotent_after_reflow: formatting the formatter's own output changes nothing - also for lines wrapped a second time after a multi-line string was re-indented\n failing cases ({}):\n{}", failing.len(), failing.join("\n"));
    }

    // C07 second clause on asm bodies: every instruction line of an `asm ... end` block is emitted byte for byte (lines that
    // hold only a compiler directive are not instruction lines).  All failing inputs are collected and reported together.
    #[test]
    fn verif_nx_pipeline_asm_verbatim() {
        let plain = ["  mov   eax,1", "  add eax ,  2  // c", "@@loop:  dec ecx", "  jnz   @@loop", "  db 'a  b', \"c  d\"", "\tmov\tedx , [ebx+4]", "  mov eax,1; mov edx,2", "  lock   cmpxchg [ecx],edx"];
        let with_directive = ["  mov   eax, {$ifdef A} 1  +  3 {$else}  2  + 4 {$endif}", "  {$ifdef A}  mov   ebx,2  {$endif}", "  mov   eax,{$ifdef A}1{$else}2{$endif}+3"];
        let mut bodies: Vec<Vec<&str>> = Vec::new();
        for a in plain { bodies.push(vec![a]); for b in plain { bodies.push(vec![a, b]); } }
        for d in with_directive { bodies.push(vec![d]); for a in plain { bodies.push(vec![a, d]); bodies.push(vec![d, a]); } }
        let cfgs = [leak(config(false, 2, 2, false, 120, false)), leak(config(true, 4, 1, true, 30, true))];
        let mut n = 0u64;
        let mut failing: Vec<String> = Vec::new();
        for body in &bodies {
            for wrapper in [("procedure Foo;\nasm\n", "\nend;\n"), ("procedure Foo;\nbegin\n  X:=1;\n  asm\n", "\n  end;\n  Y:=2;\nend;\n")] {
                let input = format!("{}{}{}", wrapper.0, body.join("\n"), wrapper.1);
                for cfg in cfgs {
                    let (out, _) = fmt(cfg, &input, Vec::new());
                    // the line breaks inside the body are part of the verbatim text, the others are the configured ones
                    let out_lines: Vec<&str> = out.split('\n').map(|l| l.trim_end_matches('\r')).collect();
                    let mut from = 0usize;
                    let mut ok = true;
                    for line in body {
                        match out_lines[from..].iter().position(|l| l == line) {
                            Some(k) => from += k + 1,
                            None => { ok = false; break; }
                        }
                    }
                    if !ok && !failing.iter().any(|f| f.ends_with(&format!("input={:?}", input))) {
                        failing.push(format!("case=asm_line_changed input={:?}", input));
                    }
                    n += 1;
                }
            }
        }
        println!("NX pipeline_asm_verbatim: {} cases", n);
        assert!(n > 400, "enumeration ran");
        assert!(failing.is_empty(), "OB pipeline/asm_lines_verbatim: the instruction lines of an asm block are emitted byte for byte, in order\n failing cases ({}):\n{}", failing.len(), failing.join("\n"));
    }

    // C08 on corner inputs reported from the field (ill-formed input, partly ignored lines): the whitespace clauses that hold for
    // ALL inputs.  All failing inputs are collected and reported together.
    #[test]
    fn verif_nx_pipeline_whitespace_corners() {
        let inputs = [
            "// pasfmt off\nfoo(procedure begin\n// pasfmt on\n    a   :=   1;\n\n\n\n    b;\n// pasfmt off\nend);\n// pasfmt on\nc;\n",
            "foo(procedure begin a;   \n\n\n  ",
            "x := procedure begin",
            "a := 'abc   \nb;\n",
            "\n\n\n\nclass case exports ^ goto name absolute { c } on {$endif} public not",
            "a;   \n\n\n\n// pasfmt off\nb;  \n\n\n",
            "a;\n\n\n\nb;   \nc  ;\n",
            "begin\n  a;   \n\n\n\n  if b then   \n\n    c;\nend.\n",
            "type T = class\n\n\n\n  private   \n    F: Integer;   \nend;\n",
            "foo(procedure begin a; end,   \n\n\n\n  b);\n",
            // partly ignored parent lines: the child lines that are NOT ignored are still laid out
            "Foo({pasfmt off}procedure begin{pasfmt on}\n   A := 1;\n\n\n\n   B := 2;\n end);\n",
            "Foo(procedure {pasfmt off}begin{pasfmt on}\n   A := 1;   \n\n\n\n   B := 2;\n end);\n",
            "X := {pasfmt off}procedure{pasfmt on} begin\n   A := 1;\n\n\n\n   B := 2;   \n end;\n",
            "if A then {pasfmt off}begin{pasfmt on}\n   B   :=   1;\n\n\n\n   C;   \nend;\n",
        ];
        let cfg = leak(config(false, 2, 2, false, 120, false));
        let mut n = 0u64;
        let mut failing: Vec<String> = Vec::new();
        for input in inputs {
            let (out, _) = fmt(cfg, input, Vec::new());
            // lines inside a verbatim region (from a `pasfmt off` comment through the next `pasfmt on` comment) are exempt
            let mut verbatim = false;
            let mut blank_run = 0;
            let mut bad: Option<&str> = None;
            let lines: Vec<&str> = out.split('\n').collect();
            for (i, line) in lines.iter().enumerate() {
                let low = line.to_ascii_lowercase();
                let turns_off = low.contains("pasfmt off");
                let turns_on = low.contains("pasfmt on");
                let exempt = verbatim || turns_off || turns_on;
                if !exempt && (line.ends_with(' ') || line.ends_with('\t')) { bad = Some("line_ends_in_blanks"); }
                if line.is_empty() && i + 1 < lines.len() { blank_run += 1; } else { blank_run = 0; }
                if !exempt && !verbatim && blank_run >= 2 { bad = Some("two_blank_lines"); }
                if turns_off { verbatim = true; }
                if turns_on { verbatim = false; }
            }
            if out.starts_with('\n') && out.len() > 1 { bad = Some("blank_line_at_start"); }
            if let Some(what) = bad {
                failing.push(format!("case={} input={:?}", what, input));
            }
            n += 1;
        }
        println!("NX pipeline_whitespace_corners: {} cases", n);
        assert!(n >= 14, "enumeration ran");
        assert!(failing.is_empty(), "OB pipeline/canonical_whitespace_corners: outside verbatim regions and multi-line tokens no output line ends in blanks, there are never two consecutive blank lines and no blank line at the start of the file - for all inputs\n failing cases ({}):\n{}", failing.len(), failing.join("\n"));
    }

    // C11 on inputs reported from the field, for every wrap_column 10..130: the three clauses of the property, all failing
    // inputs collected (the best-first search with additive penalties is not monotone in the limit; see known_findings.json).
    #[test]
    fn verif_nx_pipeline_wrap_limit_corners() {
        let inputs = [
            "procedure P;\nbegin\n  Foo(aaaa, {$ifdef AAAAAAAAAAAAAAAAAAAAAAAAAAAAAAAAAAAA\n  } bbbb {$endif});\nend;\n",
            "interface\nfunction AA(B: C): D; overload; static; deprecated;\n",
            "type\n  TFoo = record\n  case AAAAA of\n    BBBBB: //\n        (BBBBBBB, CCCCCCC);\n  end;\n",
            "(AAAA + BBBB + CCCC).DD := EE;\n",
            "interface\nprocedure Apples<AAAAAAAAAAAA, BBBBBBBB: IInterface; AAAAAAA, BBBBBBBBB, CCCCCCCC: record; CC: constructor, record, class, IInterface>();\n",
            "procedure P;\nbegin\n  Result := Alpha + Beta * (Gamma - Delta) + Epsilon.Zeta(Eta, Theta) + Iota;\nend;\n",
            "procedure P;\nbegin\n  if (A = B) and (C <> D) or (E < F) then\n    G := H + I + J + K;\nend;\n",
            "type\n  TFoo = class(TBar, IBaz)\n  private\n    FField: TDictionary<string, TList<Integer>>;\n  public\n    procedure Method(const A: string; var B: Integer); virtual; abstract;\n  end;\n",
            "const\n  Table: array[0..3] of string = ('alpha', 'beta', 'gamma', 'delta');\n",
            "procedure P;\nbegin\n  Foo(function(X: Integer): Integer begin Result := X + 1; end, Bar(Baz, Qux));\nend;\n",
        ];
        let mut n = 0u64;
        let mut failing: Vec<String> = Vec::new();
        for input in inputs {
            let outs: Vec<(u32, String)> = (10..=130u32).map(|w| (w, fmt(leak(config(false, 2, 2, false, w, false)), input, Vec::new()).0)).collect();
            let widest = |o: &str| o.split('\n').map(|l| l.len() as u32).max().unwrap_or(0);
            let mut more_lines: Vec<u32> = Vec::new();
            let mut fits_but_differs: Vec<u32> = Vec::new();
            let mut stops_fitting: Vec<u32> = Vec::new();
            let mut fitted_before = false;
            for (i, (w, o)) in outs.iter().enumerate() {
                if i > 0 && o.split('\n').count() > outs[i - 1].1.split('\n').count() { more_lines.push(*w); }
                if outs[i + 1..].iter().any(|(_, wide)| widest(wide) <= *w && wide != o) { fits_but_differs.push(*w); }
                let fits = widest(o) <= *w;
                if fitted_before && !fits { stops_fitting.push(*w); }
                fitted_before |= fits;
                n += 1;
            }
            if !more_lines.is_empty() { failing.push(format!("case=wider_more_lines limits={:?} input={:?}", more_lines, input)); }
            if !fits_but_differs.is_empty() { failing.push(format!("case=fits_but_differs limits={:?} input={:?}", fits_but_differs, input)); }
            if !stops_fitting.is_empty() { failing.push(format!("case=stops_fitting limits={:?} input={:?}", stops_fitting, input)); }
        }
        println!("NX pipeline_wrap_limit_corners: {} cases", n);
        assert!(n > 1_000, "enumeration ran");
        assert!(failing.is_empty(), "OB pipeline/limit_clauses_corners: a wider result that fits the narrower limit is the narrower result; widening never adds lines; once every line fits it fits at every larger limit\n failing cases ({}):\n{}", failing.len(), failing.join("\n"));
    }

    // C09 third clause: the line endings of the INPUT do not matter (inputs without line-spanning tokens), also for
    // malformed lines such as an unterminated literal or a comment at the end of a line
    #[test]
    fn verif_nx_pipeline_input_line_endings() {
        let lines = ["A := 1;", "S := 'abc", "B := 'x' + 'y'; // note", "{$ifdef X}", "{$endif}", "if A then", "  B;", "", "Foo(1,", "  2);", "// c", "\"q"];
        let cfgs = [leak(config(false, 2, 2, false, 60, false)), leak(config(false, 2, 2, true, 60, false))];
        let mut n = 0u64;
        for a in lines { for b in lines { for c in lines { for cfg in cfgs {
            let lf = format!("{a}\n{b}\n{c}\n");
            let crlf = format!("{a}\r\n{b}\r\n{c}\r\n");
            let (o1, _) = fmt(cfg, &lf, Vec::new());
            let (o2, _) = fmt(cfg, &crlf, Vec::new());
            assert!(o1 == o2, "OB pipeline/input_endings_do_not_matter: CRLF input gives the same output as LF input\n input={:?}\n from_lf={:?}\n from_crlf={:?}", lf, o1, o2);
            let nl = if cfg.line_ending_is_crlf() { "\r\n" } else { "\n" };
            assert!(!o1.replace(nl, "").contains('\r') && !o1.replace(nl, "").contains('\n'), "OB pipeline/only_configured_line_ending: every line break in the output is the configured line ending\n input={:?}\n output={:?}", lf, o1);
            n += 1;
        }}}}
        // a logical line that STARTS with a multi-line string which is re-indented (so it is not "kept verbatim"): the wrapping of
        // the rest of the line must not depend on the input's line endings
        for body_lines in [1usize, 3, 5] {
            for call in [".Foo(bbbbbbbb, ccccccc);", ".Replace(aaaaaaa, bbbbbbb, ccccccc) + dddd;"] {
                let body: String = (0..body_lines).map(|i| format!("line{}\n", i)).collect();
                let lf = format!("begin\n'''\n{body}'''{call}\nend;\n");
                let crlf = lf.replace('\n', "\r\n");
                for limit in 30..=70u32 {
                    let cfg = leak(config(false, 2, 2, false, limit, false));
                    let (o1, _) = fmt(cfg, &lf, Vec::new());
                    let (o2, _) = fmt(cfg, &crlf, Vec::new());
                    assert!(o1 == o2, "OB pipeline/input_endings_do_not_matter: CRLF input gives the same output as LF input\n input={:?} wrap_column={}\n from_lf={:?}\n from_crlf={:?}", lf, limit, o1, o2);
                    n += 1;
                }
            }
        }
        println!("NX pipeline_input_line_endings: {} cases", n);
        assert!(n > 3_000, "enumeration ran");
    }

    // C07: a region between `pasfmt off` and `pasfmt on` is emitted byte for byte, wherever it is placed
    #[test]
    fn verif_nx_pipeline_verbatim() {
        let cfgs = [leak(config(false, 2, 2, false, 30, false)), leak(config(true, 4, 1, true, 120, true))];
        let regions = ["  x  :=   1 ;", "\tbegin\n\t\t  end  ;", "if a   then\r\n  b", "// c  \n", "{ \n }", "'''\n  q\n  '''"];
        let offs = ["{pasfmt off}", "// pasfmt off\n", "(* PASFMT OFF *)", "{  PasFmt   Off foo}"];
        let ons = ["{pasfmt on}", "//pasfmt on", "(*pasfmt ON*)"];
        let pres = ["", "a := 1; ", "begin\n"];
        let posts = ["", "\n b:=2;", "\nend;"];
        let mut n = 0u64;
        for cfg in cfgs { for r in regions { for off in offs { for on in ons { for pre in pres { for post in posts { for closed in [true, false] {
            let region = if closed { format!("{off}{r}{on}") } else { format!("{off}{r}") };
            let input = format!("{pre}{region}{}", if closed { post } else { "" });
            let (out, _) = fmt(cfg, &input, Vec::new());
            assert!(out.contains(&region), "OB pipeline/verbatim_region: text from a `pasfmt off` comment through the next `pasfmt on` comment (or the end) is emitted byte for byte\n input={:?}\n output={:?}", input, out);
            n += 1;
        }}}}}}}
        println!("NX pipeline_verbatim: {} cases", n);
        assert!(n > 2_000, "enumeration ran");
    }
    // ---- C05: block structure, against a generator that knows every line's nesting depth by construction
    #[derive(Clone)]
    enum S {
        Simple(&'static str),
        Block(Vec<S>),
        Try(Vec<S>, Vec<S>, bool),
        Repeat(Vec<S>),
        IfBegin(Vec<S>, Option<Vec<S>>),
        ForBegin(Vec<S>),
        WhileSimple,
        Case(Vec<S>),
        // `if C then <statement> [else <statement>]` without begin/end: the branches are child lines one level deeper; no `;` before `else`
        IfPlain(Box<S>, Option<Box<S>>),
    }

    fn ind(d: usize) -> String {
        "  ".repeat(d)
    }

    // expected rendering: one statement per line, one level deeper than the line that opens its block; closers at the opener's level
    fn render(s: &S, d: usize, wrap_begin: bool, out: &mut Vec<String>) {
        let list = |v: &Vec<S>, d: usize, out: &mut Vec<String>| {
            for x in v {
                render(x, d, wrap_begin, out);
            }
        };
        match s {
            S::Simple(t) => out.push(format!("{}{}", ind(d), t)),
            S::Block(v) => {
                out.push(format!("{}begin", ind(d)));
                list(v, d + 1, out);
                out.push(format!("{}end;", ind(d)));
            }
            S::Try(a, b, fin) => {
                out.push(format!("{}try", ind(d)));
                list(a, d + 1, out);
                out.push(format!("{}{}", ind(d), if *fin { "finally" } else { "except" }));
                list(b, d + 1, out);
                out.push(format!("{}end;", ind(d)));
            }
            S::Repeat(v) => {
                out.push(format!("{}repeat", ind(d)));
                list(v, d + 1, out);
                out.push(format!("{}until Z;", ind(d)));
            }
            S::IfBegin(a, b) => {
                if wrap_begin {
                    out.push(format!("{}if C then", ind(d)));
                    out.push(format!("{}begin", ind(d)));
                } else {
                    out.push(format!("{}if C then begin", ind(d)));
                }
                list(a, d + 1, out);
                match b {
                    None => out.push(format!("{}end;", ind(d))),
                    Some(b) => {
                        out.push(format!("{}end", ind(d)));
                        if wrap_begin {
                            out.push(format!("{}else", ind(d)));
                            out.push(format!("{}begin", ind(d)));
                        } else {
                            out.push(format!("{}else begin", ind(d)));
                        }
                        list(b, d + 1, out);
                        out.push(format!("{}end;", ind(d)));
                    }
                }
            }
            S::ForBegin(v) => {
                if wrap_begin {
                    out.push(format!("{}for I := 0 to 9 do", ind(d)));
                    out.push(format!("{}begin", ind(d)));
                } else {
                    out.push(format!("{}for I := 0 to 9 do begin", ind(d)));
                }
                list(v, d + 1, out);
                out.push(format!("{}end;", ind(d)));
            }
            S::WhileSimple => {
                out.push(format!("{}while C do", ind(d)));
                out.push(format!("{}W;", ind(d + 1)));
            }
            S::IfPlain(a, b) => {
                out.push(format!("{}if C then", ind(d)));
                let mut inner = Vec::new();
                render(a, d + 1, wrap_begin, &mut inner);
                if b.is_some() {
                    // the statement before `else` carries no semicolon
                    let last = inner.pop().unwrap();
                    inner.push(last.trim_end_matches(';').to_string());
                }
                out.extend(inner);
                if let Some(b) = b {
                    out.push(format!("{}else", ind(d)));
                    render(b, d + 1, wrap_begin, out);
                }
            }
            S::Case(v) => {
                out.push(format!("{}case X of", ind(d)));
                out.push(format!("{}1: G;", ind(d + 1)));
                out.push(format!("{}else", ind(d)));
                list(v, d + 1, out);
                out.push(format!("{}end;", ind(d)));
            }
        }
    }

    fn lists(depth: usize) -> Vec<Vec<S>> {
        // statement lists of length 0..=2 over all forms whose sub-lists come from the next depth
        let sub: Vec<Vec<S>> = if depth == 0 { vec![vec![], vec![S::Simple("A;")]] } else { lists(depth - 1) };
        let mut forms: Vec<S> = vec![S::Simple("A;"), S::Simple("B := C + 1;"), S::WhileSimple];
        for (i, a) in sub.iter().enumerate() {
            forms.push(S::Block(a.clone()));
            forms.push(S::Repeat(a.clone()));
            forms.push(S::ForBegin(a.clone()));
            forms.push(S::Case(if a.is_empty() { vec![S::Simple("A;")] } else { a.clone() }));
            forms.push(S::IfBegin(a.clone(), None));
            // pair each list with one partner, not with all of them (keeps the count in the thousands)
            let b = &sub[(i + 1) % sub.len()];
            forms.push(S::Try(a.clone(), b.clone(), i % 2 == 0));
            forms.push(S::IfBegin(a.clone(), Some(b.clone())));
            // unbraced branches: repeat / case / try / for / while / simple statement directly under `then`, with and without `else`
            forms.push(S::IfPlain(Box::new(S::Repeat(a.clone())), Some(Box::new(S::Simple("D;")))));
            let case_list = if a.is_empty() { vec![S::Simple("A;")] } else { a.clone() };
            let then_branch = match i % 5 {
                0 => S::Case(case_list),
                1 => S::Try(a.clone(), b.clone(), i % 2 == 1),
                2 => S::ForBegin(a.clone()),
                3 => S::WhileSimple,
                _ => S::Simple("A;"),
            };
            let else_branch = match i % 3 { 0 => Some(Box::new(S::Repeat(b.clone()))), 1 => Some(Box::new(S::Simple("D;"))), _ => None };
            forms.push(S::IfPlain(Box::new(then_branch), else_branch));
        }
        let mut out: Vec<Vec<S>> = vec![vec![]];
        for f in &forms {
            out.push(vec![f.clone()]);
        }
        if depth == 0 {
            for f in &forms {
                for g in &forms {
                    out.push(vec![f.clone(), g.clone()]);
                }
            }
        } else {
            for (i, f) in forms.iter().enumerate() {
                out.push(vec![f.clone(), forms[(i * 7 + 3) % forms.len()].clone()]);
                out.push(vec![forms[(i * 5 + 1) % forms.len()].clone(), f.clone()]);
            }
        }
        out
    }

    #[test]
    fn verif_nx_pipeline_structure() {
        // four shards run in parallel; the test passes when every shard has enumerated its part
        let handles: Vec<_> = (0..4usize).map(|k| std::thread::spawn(move || structure_shard(k, 4))).collect();
        let mut n = 0u64;
        for h in handles {
            match h.join() {
                Ok(c) => n += c,
                Err(e) => std::panic::resume_unwind(e),
            }
        }
        println!("NX pipeline_structure: {} cases", n);
        assert!(n > 3_000, "enumeration ran");
    }

    fn structure_shard(shard: usize, shards: usize) -> u64 {
        let auto = leak(config(false, 2, 2, false, 120, false));
        let wrap = leak(config(false, 2, 2, false, 120, true));
        let mut n = 0u64;
        let headers: [(&str, &str); 5] = [
            ("procedure P;", ""), ("function F: Integer;", ""), ("constructor T.Create;", ""), ("destructor T.Destroy;", ""), ("class procedure T.Q;", ""),
        ];
        let sections: [&[&str]; 5] = [&[], &["var", "  L: Integer;"], &["const", "  K = 1;"], &["type", "  R = Integer;"], &["var", "  L: Integer;", "  M: Byte;"]];
        for (depth, stride) in [(0usize, 1usize), (1, 1)] {
            for (li, body) in lists(depth).iter().enumerate() {
                if li % stride != 0 || li % shards != shard {
                    continue;
                }
                // every routine kind, every kind of preceding unit-level section and local section (rotating, to keep the count bounded)
                for (hi, (header, _)) in headers.iter().enumerate() {
                    let outer = sections[(li + hi) % sections.len()];
                    let local = sections[(li + 2 * hi + 1) % sections.len()];
                    for (cfg, wrap_begin) in [(auto, false), (wrap, true)] {
                        let mut lines: Vec<String> = vec!["unit U;".into(), "interface".into(), "implementation".into()];
                        lines.extend(outer.iter().map(|x| x.to_string()));
                        lines.push(header.to_string());
                        lines.extend(local.iter().map(|x| x.to_string()));
                        lines.push("begin".into());
                        for st in body {
                            render(st, 1, wrap_begin, &mut lines);
                        }
                        lines.push("end;".into());
                        lines.push("end.".into());
                        let expected = format!("{}\n", lines.join("\n"));
                        let flat: String = lines.iter().map(|l| l.trim()).collect::<Vec<_>>().join(" ");
                        // compared per line: indentation and first token (what C05 states), not the spacing inside the line
                        let shape = |t: &str| -> Vec<(usize, String)> {
                            t.lines().map(|l| (l.len() - l.trim_start().len(), l.split_whitespace().next().unwrap_or("").to_ascii_lowercase())).collect()
                        };
                        let (out, _) = fmt(cfg, &flat, Vec::new());
                        assert!(shape(&out) == shape(&expected), "OB pipeline/block_structure: every statement / declaration starts its own line one level deeper than its block opener; closers at the opener's level; begin_style decides where `begin` goes\n input={:?}\n output=\n{}\n expected (indentation and first token per line)=\n{}", flat, out, expected);
                        // the same tokens laid out one per line give the same result (C06)
                        let tall: String = flat.split(' ').collect::<Vec<_>>().join("\n");
                        let (out2, _) = fmt(cfg, &tall, Vec::new());
                        assert!(out2 == out, "OB pipeline/layout_independent: the result does not depend on the input's line wrapping\n input={:?}\n output=\n{}\n from one line=\n{}", tall, out2, out);
                        n += 1;
                    }
                }
            }
        }
        n
    }

    // ---- C06: the output is a function of the token sequence (comments and blank-line grouping aside).
    // Canonical texts in which every gap is one space; each gap is then re-rendered as more spaces, a tab, a single line
    // break, or a line break plus indentation - all at once, alternating, and one gap at a time.  Only existing gaps are
    // changed (no gap is created or removed), there are no comments, no blank lines, no asm blocks, no verbatim regions.
    #[test]
    fn verif_nx_pipeline_relayout() {
        let stmts = [
            "A := 'abc' [1];", "A := 'abc'[1];", "N := 12 + F (3);", "N := 12 + F(3);", "S := 'a' + 'b';", "X := Y [1];", "Foo (1, 2);", "Foo(1, 2);",
            "if A then B else C;", "A := B . C;", "A := B.C;", "A := @ B;", "A := - B;", "A := B ^ . C;", "for I := 0 to 9 do W;", "while A < B do C;",
            "case X of 1 : G; else H; end;", "try A; except on E : Exception do B; end;", "L := TList < Integer > . Create;",
            "raise Exception . Create ('x');", "A := [1, 2];", "A := B as C;", "A := #13 #10;", "A := 'a' #13;", "A := $FF + %101;", "A := 1.5e3 * 2;",
            "with A , B do C;", "repeat A; until B;", "goto L1;", "L1 : A;", "inherited Create (X);", "A := B div C mod D shl 2;", "A := not B;",
            "A := (B);", "A := ( B );", "P ^ := 1;", "A := B [ 1 , 2 ];", "A := function (X : Integer) : Integer begin Result := X; end;",
            "A . B . C (1) . D;", "exit (1);", "A := nil;", "A := 'x' .Length;", "A := 12 .ToString;", "if A then begin B; end else begin C; end;",
            "A := B < C;", "A := B <= C;", "A := B <> C;", "A := B in [C];", "A := B is C;", "A := ^ B;", "A := B ( C ) ( D );", "A := &begin + 1;",
            // asm blocks: the instruction lines are excluded by the property, so the gaps inside the body are kept (\u{1} = a blank that is
            // not re-laid); the gaps around the block and after its `end` are ordinary gaps
            "asm\u{1}mov\u{1}eax,\u{1}1;\u{1}mov\u{1}edx,\u{1}2;\u{1}end ; A := 1;", "asm\u{1}end ; A := 1;", "asm\u{1}mov\u{1}eax,\u{1}1\u{1}end ; A := 1;",
            "if A then asm\u{1}nop\u{1}end else B;", "asm\u{1}mov\u{1}eax,\u{1}1;\u{1}end ;",
        ];
        let decls = [
            "label L2;", "const K : Integer = 1;", "var V : array [0 .. 1] of Byte;", "type T = class (TObject) private F : Integer; public procedure P; end;",
            "type E = (One, Two);", "type S = set of Byte;", "uses A , B . C;", "type G < T > = class end;", "procedure Q (A : Integer ; var B : Byte); forward;",
            "function F : Integer; external 'x' name 'y';", "const M = 'abc' [1];", "resourcestring R = 'r';", "type P = ^ Integer;", "threadvar W : Byte;",
        ];
        let cfgs = [leak(config(false, 2, 2, false, 120, false)), leak(config(true, 4, 1, true, 30, true))];
        let mut texts: Vec<String> = Vec::new();
        for a in stmts {
            texts.push(format!("procedure P; begin {} end;", a));
        }
        for (i, a) in stmts.iter().enumerate() {
            texts.push(format!("procedure P; begin {} {} end;", a, stmts[(i * 7 + 3) % stmts.len()]));
        }
        for d in decls {
            texts.push(format!("unit U; interface {} implementation end.", d));
        }
        let mut n = 0u64;
        // a single line break may be LF, CR LF or a lone CR
        let fills: [&str; 7] = ["   ", "\t", "\n", "\n      ", " \n", "\r\n", "\r"];
        for t in &texts {
            let words: Vec<&str> = t.split(' ').collect();
            let gaps = words.len() - 1;
            for cfg in cfgs {
                let mut variants: Vec<String> = Vec::new();
                for f in fills {
                    variants.push(words.join(f));                                            // every gap
                    for g in 0..gaps {                                                        // one gap at a time
                        let mut v = String::new();
                        for (i, w) in words.iter().enumerate() {
                            v.push_str(w);
                            if i < gaps { v.push_str(if i == g { f } else { " " }); }
                        }
                        variants.push(v);
                    }
                }
                let mut alt = String::new();                                                  // alternating
                for (i, w) in words.iter().enumerate() {
                    alt.push_str(w);
                    if i < gaps { alt.push_str(fills[i % fills.len()]); }
                }
                variants.push(alt);
                let reference = { let (r, _) = fmt(cfg, &t.replace('\u{1}', " "), Vec::new()); r };
                for v in &variants {
                    let v = &v.replace('\u{1}', " ");
                    let (out, _) = fmt(cfg, v, Vec::new());
                    assert!(out == reference, "OB pipeline/relayout_same_output: changing the amount of horizontal whitespace, the indentation, or a space into a single line break between two non-comment tokens does not change the output\n canonical={:?}\n relaid={:?}\n output of canonical={:?}\n output of relaid={:?}", t, v, reference, out);
                    n += 1;
                }
            }
        }
        println!("NX pipeline_relayout: {} cases", n);
        assert!(n > 10_000, "enumeration ran");
    }

    // C08 / C10 for settings whose product exceeds a byte: every line's indentation stays a whole number of units
    // (the domain of the defect repaired by 8bdd30b: the continuation width used to saturate at 255 columns)
    #[test]
    fn verif_nx_pipeline_wide_units() {
        let inputs = [
            "begin\n  a := foo(bbbbbbbbbbbbbbbbbbbbbbbbb, cccccccccccccccccccccccc);\nend;\n",
            "procedure P;\nbegin\n  if aaaaaaaaaaaaaaaaaa and bbbbbbbbbbbbbbbbbbbbb then\n    ccccccccccccccc(ddddddddddddd, eeeeeeeeeeeee, fffffffffffff);\nend;\n",
        ];
        let mut n = 0u64;
        let mut deep = 0u64;
        for &(tw, ci) in &[(100u8, 3u8), (128, 2), (16, 16), (17, 16), (64, 4), (85, 4), (3, 100), (255, 2), (255, 255), (1, 255), (2, 2)] {
            for use_tabs in [false, true] {
                let cfg = leak(config(use_tabs, tw, ci, false, 30, false));
                for p in inputs {
                    let (out, _) = fmt(cfg, p, Vec::new());
                    n += 1;
                    for line in out.split('\n') {
                        if use_tabs {
                            let tabs = line.len() - line.trim_start_matches('\t').len();
                            assert!(!line[tabs..].starts_with(' '), "OB pipeline/indent_unit: indentation is a whole number of indentation units (tabs only when use_tabs is set)\n tab_width={} continuation_indents={} input={:?} line={:?}", tw, ci, p, &line[..line.len().min(40)]);
                            if tabs > ci as usize { deep += 1; }
                        } else {
                            let indent = line.len() - line.trim_start_matches(' ').len();
                            assert!(indent % tw as usize == 0 && !line.trim_start_matches(' ').starts_with('\t'), "OB pipeline/indent_unit: indentation is a whole number of indentation units (a multiple of tab_width)\n tab_width={} continuation_indents={} indentation={} input={:?}", tw, ci, indent, p);
                            if indent > tw as usize * ci as usize { deep += 1; }
                        }
                    }
                    let (again, _) = fmt(cfg, &out, Vec::new());
                    assert!(again == out, "OB pipeline/idempotent: formatting the formatter's own output changes nothing\n tab_width={} continuation_indents={} input={:?}", tw, ci, p);
                }
            }
        }
        assert!(n == 44 && deep > 20, "vacuity guard: {} runs, {} lines deeper than one continuation", n, deep);
        println!("NX verif_nx_pipeline_wide_units: {} cases", n);
    }

    // C04 / C01 / C08 at the edges of the 16-bit counters the pipeline keeps per token (line breaks and blanks in front of a
    // token): runs of 65 535, 65 536, 65 537 and 70 000 line breaks / blanks between two statements, in front of the end of the
    // text, and inside a verbatim region.
    #[test]
    fn verif_nx_pipeline_counter_boundaries() {
        let cfg = leak(config(false, 2, 2, false, 120, false));
        let crlf = leak(config(false, 2, 2, true, 120, false));
        let mut n = 0u64;
        for unit in ["\n", "\r\n", " ", "\t", "\r", "\n "] {
            for count in [65_535usize, 65_536, 65_537, 70_000] {
                let run = unit.repeat(count);
                for (k, text) in [format!("a;{}b;\n", run), format!("a;\nb;{}", run), format!("a;\n// pasfmt off\nb;{}c;\n// pasfmt on\nd;\n", run), format!("{}a;\n", run)].into_iter().enumerate() {
                    for c in [cfg, crlf] {
                        let (out, _) = fmt(c, &text, vec![0, 3, (count / 2) as u32, (count + 4) as u32]);
                        assert!(nb(&out) == nb(&text), "OB pipeline/non_blank_preserved: the output has the same non-blank characters in the same order\n input=\"shape {} with {} x {:?}\"", k, count, unit);
                        if k != 2 {
                            assert!(!out.replace("\r\n", "\n").contains("\n\n\n") && out.len() < 40, "OB pipeline/one_blank_line_at_most: never two consecutive blank lines\n input=\"shape {} with {} x {:?}\" output={:?}", k, count, unit, &out[..out.len().min(60)]);
                        }
                        n += 1;
                    }
                }
            }
        }
        println!("NX pipeline_counter_boundaries: {} cases", n);
        assert!(n == 192, "enumeration ran");
    }

    // C04 "never aborts" for deeply nested input.  A stack overflow cannot be caught inside the process, so every case runs in
    // a child process (this test binary re-executed on this one test with VERIF_NX_DEEP_CHILD set; the child formats on a
    // thread with the 8 MiB stack of a main thread).  All failing cases are collected (see known_findings.json).
    #[test]
    fn verif_nx_pipeline_deep_nesting() {
        const CASES: [(&str, &str, &str, usize); 6] = [
            ("begin", "begin\n", "", 1_000), ("begin", "begin\n", "", 5_000), ("begin", "begin\n", "", 20_000),
            ("ifdef", "{$ifdef A}\n", "", 1_000), ("ifdef", "{$ifdef A}\n", "", 20_000), ("paren", "x := ", "(", 3_000),
        ];
        if let Ok(which) = std::env::var("VERIF_NX_DEEP_CHILD") {
            let k: usize = which.parse().unwrap();
            let (_, unit, unit2, count) = CASES[k];
            let text = if unit2.is_empty() { unit.repeat(count) } else { format!("{}{}", unit, unit2.repeat(count)) };
            let h = std::thread::Builder::new().stack_size(8 << 20).spawn(move || {
                let cfg = leak(config(false, 2, 2, false, 120, false));
                let f = make_formatter(cfg);
                let out = f.format(&text, FileOptions::new());
                assert!(nb(&out) == nb(&text));
            }).unwrap();
            std::process::exit(if h.join().is_ok() { 0 } else { 3 });
        }
        let exe = std::env::current_exe().unwrap();
        let mut failing: Vec<String> = Vec::new();
        let mut n = 0;
        for (k, (name, _, _, count)) in CASES.iter().enumerate() {
            let mut child = std::process::Command::new(&exe)
                .args(["verif_nx_pipeline_deep_nesting", "--test-threads", "1"])
                .env("VERIF_NX_DEEP_CHILD", k.to_string())
                .stdout(std::process::Stdio::null()).stderr(std::process::Stdio::null())
                .spawn().unwrap();
            let t0 = std::time::Instant::now();
            let status = loop {
                if let Some(st) = child.try_wait().unwrap() { break Some(st); }
                if t0.elapsed().as_secs() > 120 { let _ = child.kill(); let _ = child.wait(); break None; }
                std::thread::sleep(std::time::Duration::from_millis(20));
            };
            n += 1;
            match status {
                Some(st) if st.success() => {}
                Some(st) => failing.push(format!("case=aborts({}) input=\"{} nested {} times\"", st, name, count)),
                None => failing.push(format!("case=no_result_in_120s input=\"{} nested {} times\"", name, count)),
            }
        }
        println!("NX pipeline_deep_nesting: {} cases", n);
        assert!(n == 6, "enumeration ran");
        assert!(failing.is_empty(), "OB pipeline/deep_nesting_returns: formatting returns an output for every input, however deeply nested (no abort, no hang)\n{}", failing.join("\n"));
    }

    // C05 with a comment between a controlling line and its nested statement: the nested statement still starts its own
    // line one level deeper than the line that controls it, and a block closer is first on its line.
    #[test]
    fn verif_nx_pipeline_structure_comments() {
        let heads = ["if A then", "while B do", "for I := 0 to 9 do", "with R do"];
        let notes = ["", "{ note } ", "(* note *) ", "{$ifdef X} {$endif} "];
        let mut n = 0u64;
        for always_wrap in [false, true] {
            let cfg = leak(config(false, 2, 2, false, 120, always_wrap));
            for head in heads {
                for note in notes {
                    let sources = [
                        format!("procedure Foo;\nbegin\n  case X of\n    1: {note}{head} Bar;\n    2: Baz;\n  end;\nend;\n"),
                        format!("procedure Foo;\nbegin\n  Run(procedure begin {note}{head} Bar; end);\nend;\n"),
                        format!("procedure Foo;\nbegin\n  X := function: Integer begin {note}{head} Bar; end;\nend;\n"),
                        format!("procedure Foo;\nbegin {note}{head} Bar;\nend;\n"),
                        format!("procedure Foo;\nbegin\n  if Q then {note}{head} Bar;\nend;\n"),
                        format!("procedure Foo;\nbegin\n  try {note}{head} Bar; finally Baz; end;\nend;\n"),
                        format!("procedure Foo;\nbegin\n  repeat {note}{head} Bar; until Z;\nend;\n"),
                    ];
                    for src in sources {
                        let (out, _) = fmt(cfg, &src, Vec::new());
                        let indent = |l: &str| l.len() - l.trim_start_matches(' ').len();
                        let ctrl = out.lines().find(|l| l.contains(head)).map(indent);
                        let stmt = out.lines().find(|l| l.trim_start().starts_with("Bar;")).map(indent);
                        assert!(ctrl.is_some() && stmt == ctrl.map(|c| c + 2), "OB pipeline/block_structure: every statement starts its own line one level deeper than the line that controls it - also with a comment or directive in between\n input={:?}\n output=\n{}", src, out);
                        for l in out.lines() {
                            let t = l.trim_start();
                            let has_end = t.split(|c: char| !c.is_ascii_alphanumeric() && c != '_').any(|w| w.eq_ignore_ascii_case("end"));
                            assert!(!has_end || t.to_ascii_lowercase().starts_with("end"), "OB pipeline/block_structure: a block closer is first on its line\n input={:?}\n output=\n{}", src, out);
                        }
                        n += 1;
                    }
                }
            }
        }
        println!("NX pipeline_structure_comments: {} cases", n);
        assert!(n == 224, "enumeration ran");
    }

    // C09 for multi-line strings that are NOT rewritten (mis-indented, or format_multiline_strings off) with code after the
    // closing quotes: the crlf result is the lf result with the emitted terminators substituted (the untouched interior of the
    // literal keeps its own line breaks in both), at every wrap_column around the point where that code has to wrap.
    #[test]
    fn verif_nx_pipeline_crlf_untouched_strings() {
        let tails = [".format(Aaaaaaaaaa, Bbbbbbbbbb, Cccccccccc);", ".Replace(aa, b);", " + Yyyyyyyy + Zzzzzzz.W(1, 2);"];
        let lits = ["'''\nabc\n    '''", "'''\n  abc\n  '''", "'''\n      abc\n      def\n      '''"];
        let mut n = 0u64;
        let mut wrapped = 0u64;
        for fms in [false, true] { for lit in lits { for tail in tails { for limit in 24..=90u32 {
            let p = format!("procedure P;\nbegin\n  S := {lit}{tail}\nend;\n");
            let lf = leak(FormattingConfig { format_multiline_strings: fms, ..config(false, 2, 2, false, limit, false) });
            let crlf = leak(FormattingConfig { format_multiline_strings: fms, ..config(false, 2, 2, true, limit, false) });
            let (a, _) = fmt(lf, &p, Vec::new());
            let (b, _) = fmt(crlf, &p, Vec::new());
            assert!(b.replace("\r\n", "\n") == a, "OB pipeline/crlf_is_lf_substituted: line_ending=crlf gives the lf result with each terminator substituted - also around a multi-line string that is left untouched\n input={:?} limit={} format_multiline_strings={}\n lf={:?}\n crlf={:?}", p, limit, fms, a, b);
            let (c, _) = fmt(lf, &p.replace('\n', "\r\n"), Vec::new());
            if fms && lit.starts_with("'''\n  ") {
                assert!(c == a, "OB pipeline/input_endings_do_not_matter: CRLF input gives the same output as LF input (no line-spanning token kept verbatim)\n input={:?} limit={}\n lf={:?}\n from_crlf={:?}", p, limit, a, c);
            }
            if a.lines().count() > p.lines().count() { wrapped += 1; }
            n += 1;
        }}}}
        println!("NX pipeline_crlf_untouched_strings: {} cases", n);
        assert!(n == 1206 && wrapped > 100, "enumeration ran: {} cases, {} wrapped", n, wrapped);
    }

    // C03 / C01 with a comment directly after a conditional directive that stands on its own line between statements
    // (`{$ENDIF} // WIDE`): the output is a fixpoint and keeps the comment on the directive's line.
    #[test]
    fn verif_nx_pipeline_directive_comments() {
        let dirs = ["{$IFDEF A}", "{$ELSE}", "{$ENDIF}", "{$IFNDEF B}", "{$ELSEIF C}", "{$IFEND}"];
        let notes = ["// note", "{ note }", "(* note *)", "//note   ", "{$define X}"];
        let befores = ["X := 1;\n", "begin\n", "", "if Q then\n  Foo;\n"];
        let afters = ["Y := 2;\n", "end;\n", ""];
        let mut n = 0u64;
        for limit in [30u32, 120] {
            let cfg = leak(config(false, 2, 2, false, limit, false));
            for d in dirs { for note in notes { for b in befores { for a in afters { for gap in [" ", "", "   "] {
                let p = format!("procedure P;\nbegin\n{b}{d}{gap}{note}\n{a}end;\n");
                let (o, _) = fmt(cfg, &p, Vec::new());
                let (again, _) = fmt(cfg, &o, Vec::new());
                assert!(again == o, "OB pipeline/idempotent: formatting the formatter's own output changes nothing\n input={:?} limit={}\n first={:?}\n second={:?}", p, limit, o, again);
                assert!(nb(&o) == nb(&p), "OB pipeline/non_blank_preserved: the output has the same non-blank characters in the same order (ASCII case aside)\n input={:?}\n output={:?}", p, o);
                n += 1;
            }}}}}
        }
        println!("NX pipeline_directive_comments: {} cases", n);
        assert!(n == 2160, "enumeration ran");
    }
}
