// NX stand-in for the parser's output contract (C14): DelphiLogicalLineParser::parse(DelphiLexer::lex(input)).
// Verus rejects the parser (closures, fn-pointer predicates, iterator-generic recursion); Kani finished neither the
// directive tree on 2 tokens nor next_token on 3.  Contract, for EVERY token soup of up to 6 items over the alphabet:
//   every logical line is non-empty (unless voided), lists valid token positions in strictly increasing order;
//   every token of the file belongs to at least one line - exactly one when the input has no conditional directive;
//   a line's parent line index is in range and the parent line contains the parent token;
//   exactly one line has type Eof and it holds only the end-of-file token;
//   parse returns (no panic, no endless loop).
#[cfg(verif_nx)]
mod verif_nx_parse {
    use super::*;
    use crate::defaults::lexer::DelphiLexer;
    use crate::traits::{Lexer, LogicalLineParser};

    const ALPHA: [&str; 23] = [
        "begin ", "end ", "; ", "a ", ":= ", "if ", "then ", "else ", "( ", ") ", "{$ifdef X} ", "{$else} ", "{$endif} ", "{$define T} ",
        "//c\n", "procedure ", "var ", ": ", "case ", "of ", "asm ", "class ", ", ",
    ];

    fn check(text: &str, well_formed: bool, n: &mut u64) {
        let (ntok, has_cond) = {
            let tokens = DelphiLexer {}.lex(text);
            (tokens.len(), tokens.iter().any(|t| matches!(t.get_token_type(), RawTokenType::ConditionalDirective(_))))
        };
        // run the parser under a watchdog: an endless loop must not hang the stand-in, it is a violation with this input
        let owned = text.to_string();
        let (tx, rx) = std::sync::mpsc::channel();
        std::thread::spawn(move || {
            let r = std::panic::catch_unwind(|| {
                let tokens = DelphiLexer {}.lex(&owned);
                let (lines, toks) = DelphiLogicalLineParser {}.parse(tokens);
                let lines2: Vec<(Option<LineParent>, Vec<usize>, LogicalLineType)> =
                    lines.iter().map(|l| (l.get_parent(), l.get_tokens().clone(), l.get_line_type())).collect();
                (lines2, toks.len())
            });
            let _ = tx.send(r.ok());
        });
        let (lines_data, toks_len) = match rx.recv_timeout(std::time::Duration::from_secs(5)) {
            Ok(Some(x)) => x,
            Ok(None) => panic!("OB parsecover/parse_returns: parsing never aborts\n input={:?}", text),
            Err(_) => panic!("OB parsecover/parse_terminates: parsing never loops forever (no result within 5 s)\n input={:?}", text),
        };
        let lines: Vec<LogicalLine> = lines_data.into_iter().map(|(p, t, ty)| LogicalLine::new(p, 0, t, ty)).collect();
        struct Toks { n: usize }
        impl Toks { fn len(&self) -> usize { self.n } }
        let toks = Toks { n: toks_len };
        assert!(toks.len() == ntok, "OB parsecover/tokens_kept: parsing neither drops nor adds tokens\n input={:?}", text);
        let mut seen = vec![0u32; ntok];
        let mut eof_lines = 0;
        for (li, line) in lines.iter().enumerate() {
            let ts = line.get_tokens();
            assert!(!ts.is_empty() || line.get_line_type() == LogicalLineType::Voided, "OB parsecover/lines_non_empty: a logical line is never empty\n input={:?} line={}", text, li);
            for w in ts.windows(2) {
                assert!(w[0] < w[1], "OB parsecover/strictly_increasing: token positions within a line are strictly increasing\n input={:?} line={} tokens={:?}", text, li, ts);
            }
            for &t in ts {
                assert!(t < ntok, "OB parsecover/valid_positions: a line lists valid token positions\n input={:?} line={} tokens={:?}", text, li, ts);
                seen[t] += 1;
            }
            if let (Some(p), true) = (line.get_parent(), well_formed) {
                assert!(p.line_index < lines.len() && p.line_index != li, "OB parsecover/parent_in_range: a child line's parent line exists\n input={:?} line={} parent={:?}", text, li, p);
                assert!(lines[p.line_index].get_tokens().contains(&p.global_token_index), "OB parsecover/parent_contains_token: the parent line contains the parent token\n input={:?} line={} parent={:?}", text, li, p);
            }
            if line.get_line_type() == LogicalLineType::Eof {
                eof_lines += 1;
                assert!(ts.len() == 1 && ts[0] == ntok - 1, "OB parsecover/eof_line: the end-of-file line holds only the end-of-file token\n input={:?} tokens={:?}", text, ts);
            }
        }
        assert!(eof_lines <= 1, "OB parsecover/eof_line: at most one end-of-file line\n input={:?} count={}", text, eof_lines);
        if well_formed {
            assert!(eof_lines == 1, "OB parsecover/eof_line: well-formed input has exactly one end-of-file line\n input={:?} count={}", text, eof_lines);
        }
        for (t, &c) in seen.iter().enumerate() {
            assert!(c >= 1, "OB parsecover/every_token_covered: every token belongs to at least one logical line\n input={:?} token={}", text, t);
            if !has_cond {
                assert!(c == 1, "OB parsecover/covered_once_without_directives: without conditional directives every token belongs to exactly one line\n input={:?} token={} count={}", text, t, c);
            }
        }
        *n += 1;
    }

    fn enumerate(max_len: usize, step: usize, first: usize, n: &mut u64) {
        let mut idx: Vec<usize> = Vec::new();
        let mut counter = 0usize;
        loop {
            if counter % step == first {
                let s: String = idx.iter().map(|&i| ALPHA[i]).collect();
                check(&s, false, n);
            }
            counter += 1;
            let mut k = idx.len();
            loop {
                if k == 0 {
                    if idx.len() == max_len {
                        return;
                    }
                    idx = vec![0; idx.len() + 1];
                    break;
                }
                k -= 1;
                if idx[k] + 1 < ALPHA.len() {
                    idx[k] += 1;
                    for j in k + 1..idx.len() {
                        idx[j] = 0;
                    }
                    break;
                }
            }
        }
    }

    // well-formed programs: every combination of a header, two declarations / statements and a layout
    #[test]
    fn verif_nx_parse_wellformed() {
        let mut n = 0u64;
        let decls = ["", "const A = 1;", "var B: Integer;", "type T = class end;", "procedure P; begin end;", "{$ifdef X} var C: Byte; {$endif}",
                     "function F(A: Integer): Integer; begin Result := A; end;", "// c\n", "type R = record case Byte of 0: (A: Byte); end;"];
        let stmts = ["", "A := 1;", "if A then B else C;", "for I := 0 to 1 do begin end;", "case A of 1: B; else C; end;", "try A; finally B; end;",
                     "{$ifdef X} A; {$else} B; {$endif}", "with A do B;", "repeat A until B;", "asm mov eax, 1 end;", "A := procedure begin B; end;"];
        for d1 in decls { for d2 in decls { for s1 in stmts { for s2 in stmts { for sep in [" ", "\n"] {
            let text = format!("unit U;{sep}interface{sep}{d1}{sep}implementation{sep}{d2}{sep}initialization{sep}{s1}{sep}{s2}{sep}end.");
            check(&text, true, &mut n);
            let prog = format!("program P;{sep}{d1}{sep}{d2}{sep}begin{sep}{s1}{sep}{s2}{sep}end.");
            check(&prog, true, &mut n);
        }}}}}
        println!("NX parse_wellformed: {} cases", n);
        assert!(n > 30_000, "enumeration ran");
    }

    // a wider alphabet (operators, brackets, literals, more keywords) up to length 3
    const WIDE: [&str; 46] = [
        "begin ", "end ", "; ", "a ", ":= ", "if ", "then ", "else ", "( ", ") ", "{$ifdef X} ", "{$else} ", "{$endif} ", "{$define T} ", "{ c } ",
        "//c\n", "procedure ", "var ", ": ", "case ", "of ", "asm ", "class ", ", ",
        "^ ", "< ", "> ", "= ", ". ", "[ ", "] ", "'s' ", "1 ", "@ ", "property ", "type ", "record ", "interface ", "function ", "try ", "except ",
        "for ", "do ", "{$if X} ", "uses ", "const ",
    ];

    #[test]
    fn verif_nx_parse_cover_wide3() {
        let mut n = 0u64;
        let k = WIDE.len();
        check("", false, &mut n);
        for a in 0..k {
            check(WIDE[a], false, &mut n);
            for b in 0..k {
                check(&format!("{}{}", WIDE[a], WIDE[b]), false, &mut n);
                for c in 0..k {
                    check(&format!("{}{}{}", WIDE[a], WIDE[b], WIDE[c]), false, &mut n);
                }
            }
        }
        println!("NX parse_cover_wide3: {} cases", n);
        assert!(n > 80_000, "enumeration ran");
    }

    // thorough tier only: all sequences of exactly 5 items over the 22-item alphabet, in 8 parallel shards
    #[test]
    fn verif_nx_parse_cover_len5_thorough() {
        if std::env::var("VERIF_NX_THOROUGH").is_err() {
            println!("NX parse_cover_len5_thorough: 0 cases (quick tier: skipped)");
            return;
        }
        let handles: Vec<_> = (0..8usize).map(|k| std::thread::spawn(move || { let mut n = 0u64; enumerate(5, 8, k, &mut n); n })).collect();
        let mut n = 0u64;
        for h in handles {
            match h.join() {
                Ok(c) => n += c,
                Err(e) => std::panic::resume_unwind(e),
            }
        }
        println!("NX parse_cover_len5_thorough: {} cases", n);
        assert!(n > 6_000_000, "enumeration ran");
    }

    // all sequences up to length 4 (22^4 = 234 256 + shorter)
    #[test]
    fn verif_nx_parse_cover_len4() {
        let mut n = 0u64;
        enumerate(4, 1, 0, &mut n);
        println!("NX parse_cover_len4: {} cases", n);
        assert!(n > 200_000, "enumeration ran");
    }

    // Contract of DirectiveTree::parse(..).passes() (C04: "conditional-directive passes visit each branch once (number of
    // passes linear in branches)"; C14: every token is in some pass).  The tree is iterator-generic recursion over a
    // recursive datatype with itertools adapters: outside Verus' subset, and Kani did not finish it on two tokens.
    //   * the iteration ends, with at least one pass and at most (number of conditional directives + 1) passes;
    //   * a pass lists valid token positions in strictly increasing order and never a conditional directive;
    //   * every token that is not a conditional directive is in at least one pass - in every pass if there is no directive.
    fn check_passes(text: &str, n: &mut u64) -> usize {
        let tokens = DelphiLexer {}.lex(text);
        let ndir = tokens.iter().filter(|t| matches!(t.get_token_type(), RawTokenType::ConditionalDirective(_))).count();
        let mut seen = vec![0usize; tokens.len()];
        let mut npass = 0usize;
        for pass in DirectiveTree::parse(&tokens).passes() {
            npass += 1;
            assert!(npass <= ndir + 1, "OB parsecover/passes_linear: at most one pass per conditional directive plus one\n input={:?} directives={} passes>={}", text, ndir, npass);
            for w in pass.windows(2) {
                assert!(w[0] < w[1], "OB parsecover/pass_increasing: a pass lists token positions in strictly increasing order\n input={:?} pass={:?}", text, pass);
            }
            for &t in &pass {
                assert!(t < tokens.len(), "OB parsecover/pass_valid_positions: a pass lists valid token positions\n input={:?} pass={:?}", text, pass);
                assert!(!matches!(tokens[t].get_token_type(), RawTokenType::ConditionalDirective(_)), "OB parsecover/pass_excludes_directives: a pass never contains a conditional directive\n input={:?} pass={:?}", text, pass);
                seen[t] += 1;
            }
        }
        assert!(npass >= 1, "OB parsecover/passes_linear: there is at least one pass\n input={:?}", text);
        for (t, &c) in seen.iter().enumerate() {
            if matches!(tokens[t].get_token_type(), RawTokenType::ConditionalDirective(_)) { continue; }
            assert!(c >= 1, "OB parsecover/pass_covers_every_token: every token that is not a conditional directive is in at least one pass\n input={:?} token={}", text, t);
            if ndir == 0 {
                assert!(c == npass && npass == 1, "OB parsecover/pass_covers_every_token: without directives there is exactly one pass with every token\n input={:?}", text);
            }
        }
        *n += 1;
        npass
    }

    #[test]
    fn verif_nx_directive_passes() {
        const ITEMS: [&str; 6] = ["{$ifdef A} ", "{$if B} ", "{$else} ", "{$elseif C} ", "{$endif} ", "x "];
        let mut n = 0u64;
        // every sequence of <= 8 items (matched, unmatched, dangling)
        let max_len = if std::env::var("VERIF_NX_THOROUGH").is_ok() { 9 } else { 8 };
        for len in 0..=max_len {
            let mut idx = vec![0usize; len];
            loop {
                let text: String = idx.iter().map(|&i| ITEMS[i]).collect();
                check_passes(&text, &mut n);
                let mut k = len;
                let mut done = true;
                while k > 0 {
                    k -= 1;
                    idx[k] += 1;
                    if idx[k] < ITEMS.len() { done = false; break; }
                    idx[k] = 0;
                }
                if done { break; }
            }
        }
        // structured families far beyond the enumeration: k blocks in sequence, k blocks nested, k branches, and mixtures
        let mut max_seq = 0;
        for k in 1..=40usize {
            let seq: String = (0..k).map(|i| format!("{{$ifdef A{}}} a{}; {{$else}} b{}; {{$endif}} ", i, i, i)).collect();
            max_seq = max_seq.max(check_passes(&seq, &mut n));
            let nested: String = (0..k).map(|i| format!("{{$ifdef A{}}} a{}; ", i, i)).collect::<String>()
                + &(0..k).map(|i| format!("{{$else}} b{}; {{$endif}} ", i)).collect::<String>();
            check_passes(&nested, &mut n);
            let branches: String = format!("{{$if A}} a; {}{{$else}} z; {{$endif}} ", (0..k).map(|i| format!("{{$elseif B{}}} c{}; ", i, i)).collect::<String>());
            check_passes(&branches, &mut n);
            let mixed: String = (0..k).map(|i| format!("{{$ifdef A{}}} a; {{$ifdef B{}}} b; {{$else}} c; {{$endif}} {{$else}} d; {{$ifdef C{}}} e; {{$endif}} {{$endif}} ", i, i, i)).collect();
            check_passes(&mixed, &mut n);
        }
        assert!(max_seq >= 2, "vacuity guard: a two-branch block needs two passes");
        println!("NX directive_passes: {} cases", n);
        assert!(n > 2_000_000, "enumeration ran");
    }
}
